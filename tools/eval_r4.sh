#!/bin/bash
# usage: tools/eval_r4.sh C02 C03 ...   evaluates round-4 changes in /tmp/mut4/<ID>/out/{1,2,3} as <ID>-r4-<n>
for id in "$@"; do for n in 1 2 3; do
  d=/tmp/mut4/$id/out/$n
  if [ -f $d/patch.diff ] && [ -f $d/demo.py ]; then
    python3 /verif/tools/eval_seeded.py $d $id $id-r4-$n 2>&1 | grep -v conda
  fi
done; done
