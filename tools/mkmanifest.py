#!/usr/bin/env python3
"""Regenerates /verif/MANIFEST.json from the implemented property modules (props/cNN.py) and the N/A table."""
import json, os, re, sys
HERE = os.path.dirname(os.path.dirname(os.path.abspath(__file__)))
ALL = ["C%02d" % i for i in range(1, 21)]
NA = {
 "C01": "Pure function of (expression, operand values): no schedule, clock, fault or interleaving in the statement; deciding it would be input generation dressed as simulation (DESIGN.md 4/C01).",
 "C05": "ctx.get/ctx.set are pure functions of (target or expression, current state, value); the only scheduling clause (a write returns after settling) is decided under C08 (DESIGN.md 4/C05).",
 "C06": "Accept/reject is a static function of the design's driver and dependency graph; no time, schedule or fault dimension (DESIGN.md 4/C06).",
 "C07": "Static well-formedness of one emitted text; nothing to schedule or fault (DESIGN.md 4/C07).",
 "C10": "Pure integer arithmetic on the arguments of Shape.cast / Const (DESIGN.md 4/C10).",
 "C14": "Static signature algebra and generated connect statements; no time or fault dimension (DESIGN.md 4/C14).",
 "C15": "Pure layout arithmetic and bit-pattern round trips (DESIGN.md 4/C15).",
}
PENDING = "Claim planned (DESIGN.md section 4) but its check is not yet committed; listed here until the check exists so the manifest never claims more than is built."
META = json.load(open(os.path.join(HERE, "tools", "manifest_meta.json")))
PY = "/venv/bin/python /verif/check.py"
checks, na = [], []
for pid in ALL:
    if os.path.exists(os.path.join(HERE, "props", pid.lower() + ".py")) and pid in META:
        m = META[pid]
        checks.append({
            "property_id": pid,
            "quick_cmd": f"{PY} {pid} --tier quick",
            "thorough_cmd": f"{PY} {pid} --tier thorough",
            "evidence_file": f"/verif/evidence/{pid}.json",
            "replay_cmd_template": f"{PY} --replay {{path}}",
            "engine": "dsim",
            "level_claimed": {"category": "exploration", "text": m["text"], "design_ref": "DESIGN.md section 4, " + pid},
            "level_note": m["note"],
            "technique": m["technique"],
        })
    elif pid in NA:
        na.append({"property_id": pid, "reason": NA[pid]})
    else:
        na.append({"property_id": pid, "reason": PENDING})
man = {
 "version": 1,
 "setup_cmd": "PYTHONPATH=/repo PYTHONDONTWRITEBYTECODE=1 /venv/bin/python -c \"import amaranth, amaranth.sim, amaranth.back.rtlil, jinja2; print('amaranth', amaranth.__file__)\"",
 "hooks": {"guard": "AMARANTH_VERIF", "enable": "no hooks: every seam is reached from the harness (module-global `set` in amaranth.sim.pysim/_pyrtl rebound to dsim.permset.PermSet; public Simulator/Platform APIs); checks import /repo's working tree directly via PYTHONPATH",
           "baseline_off_cmd": "cd /repo && /venv/bin/python -m pytest -ra -q -p no:cacheprovider --timeout=900 --continue-on-collection-errors",
           "source_commits": [], "add_only": True},
 "engines": [{"name": "dsim", "path": "/verif/dsim", "serves_properties": [c["property_id"] for c in checks],
              "kind_free_text": "deterministic simulation with fault injection: seeded scheduler seam (PermSet), harness-owned clocks/resets (manual mode) and integer-femtosecond timeline mode, seeded schedule/fault generators, reference-model oracles, ddmin shrinking, JSON replay files"}],
 "checks": checks,
 "not_applicable": na,
 "notes": "All checks: exit 0 held / 1 VIOLATION / 2 harness error. VERIF_SEED, VERIF_TIER, VERIF_BUDGET_S, VERIF_JOBS honoured. Known findings: /verif/known_findings.json. A run stopped by the 20 s CPU watchdog in a pool worker is executed again alone (200 s) before it is reported as a hang; counters in evidence coverage.watchdog (DESIGN.md sections 10 and 12).",
}
json.dump(man, open(os.path.join(HERE, "MANIFEST.json"), "w"), indent=1)
print("claimed:", [c["property_id"] for c in checks]); print("n/a:", [n["property_id"] for n in na])
