#!/bin/bash
# usage: tools/eval_r4.sh C02 C03 ...   evaluates round-6 changes in /tmp/mut6/<ID>/out/{1,2,3} as <ID>-r6-<n>
for id in "$@"; do for n in 1 2 3; do
  d=/tmp/mut6/$id/out/$n
  if [ -f $d/patch.diff ] && [ -f $d/demo.py ]; then
    python3 /verif/tools/eval_seeded.py $d $id $id-r6-$n 2>&1 | grep -v conda
  fi
done; done
