#!/bin/bash
# usage: tools/selftest_determinism.sh [IDs...]   digests of the first N runs must agree across hash seeds and worker counts
cd "$(dirname "$0")/.."
N=${N:-40}
ids=${@:-C02 C03 C04 C08 C09 C11 C12 C13 C16 C17 C18 C19 C20}
rc=0
idx=$(seq -s, 0 $((N-1)))
for id in $ids; do
  a=$(PYTHONHASHSEED=0 PYTHONPATH=/repo:/verif /venv/bin/python check.py --digests $id --indices $idx 2>/dev/null | grep ^DIGEST | sha256sum)
  b=$(PYTHONHASHSEED=12345 PYTHONPATH=/repo:/verif /venv/bin/python check.py --digests $id --indices $idx 2>/dev/null | grep ^DIGEST | sha256sum)
  c=$(PYTHONHASHSEED=7 PYTHONPATH=/repo:/verif /venv/bin/python check.py --digests $id --indices $idx 2>/dev/null | grep ^DIGEST | sha256sum)
  if [ "$a" = "$b" ] && [ "$a" = "$c" ]; then echo "$id deterministic over $N runs x 3 hash seeds"; else echo "HARNESS-ERROR $id digests differ"; rc=2; fi
done
exit $rc
