#!/bin/bash
# usage: tools/with_patch.sh <patch.diff> <command...>
# Runs <command> with VERIF_REPO pointing at a scratch copy of /repo (HEAD + working tree) with the patch applied,
# and VERIF_OUT at a scratch output dir; removes both afterwards.  Never touches /repo.
set -u
patch=$(readlink -f "$1"); shift
scratch=$(mktemp -d /var/tmp/verif-mut-XXXXXX)
trap 'rm -rf "$scratch"' EXIT
mkdir -p "$scratch/repo" "$scratch/out"
rsync -a --exclude .git --exclude __pycache__ /repo/ "$scratch/repo/"
if ! (cd "$scratch/repo" && patch -p1 -s --no-backup-if-mismatch < "$patch"); then
  echo "PATCH-FAILED $patch"; exit 3
fi
VERIF_REPO="$scratch/repo" VERIF_OUT="$scratch/out" "$@"
rc=$?
exit $rc
