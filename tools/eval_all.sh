#!/bin/bash
# usage: tools/eval_all.sh C12 C13 ...   evaluates /tmp/mut/<ID>/out/{1,2,3} sequentially
for id in "$@"; do for n in 1 2 3; do
  d=/tmp/mut/$id/out/$n
  if [ -f $d/patch.diff ] && [ -f $d/demo.py ]; then
    python3 /verif/tools/eval_seeded.py $d $id $id-$n 2>&1 | grep -v conda
  fi
done; done
