#!/usr/bin/env python3
"""Re-runs every seeded change in /verif/seeded against the current checks (no test-suite run; that was done when the change
was confirmed) and writes seeded/MATRIX.json: {change: {check id: detected?}}.
usage: tools/final_matrix.py [budget_s [change ...]]"""
import json, os, shutil, subprocess, sys, tempfile, glob
VERIF = os.path.dirname(os.path.dirname(os.path.abspath(__file__)))
budget = sys.argv[1] if len(sys.argv) > 1 else "30"
only = set(sys.argv[2:])          # optional: names of the changes to (re-)evaluate; the others keep their MATRIX.json entry
CROSS = {"C02-r2-3": ["C04"], "C03-r2-2": ["C11"], "C08-r2-2": ["C09"], "C11-3": ["C04"], "C18-r2-1": ["C03"], "C17-r2-3": ["C09"],
         "C02-r2-2": ["C03"], "C03-3": ["C08"],
         "C02-r3-3": ["C09"], "C03-r3-2": ["C09"], "C03-r3-3": ["C04", "C11"], "C08-r3-3": ["C03"], "C18-r3-2": ["C03"],
         "C11-r3-2": ["C09"], "C09-r3-2": ["C02"],
         "C20-r5-2": ["C03"], "C17-r5-2": ["C03"], "C17-r5-3": ["C03", "C02"], "C18-r5-2": ["C17"], "C03-r5-2": ["C11"],
         "C03-r4-1": ["C11"], "C08-r4-2": ["C09"], "C18-r4-2": ["C03"], "C17-r4-2": ["C09"], "C09-r4-2": ["C11"]}
out = {}
if only:
    out = json.load(open(os.path.join(VERIF, "seeded", "MATRIX.json")))
for d in sorted(glob.glob(os.path.join(VERIF, "seeded", "C*"))):
    name = os.path.basename(d)
    if only and name not in only:
        continue
    prop = name.split("-")[0]
    scratch = tempfile.mkdtemp(prefix="verif-mx-", dir="/var/tmp")
    try:
        repo = os.path.join(scratch, "repo")
        subprocess.run(f"rsync -a --exclude .git --exclude __pycache__ /repo/ {repo}/", shell=True, check=True)
        p = subprocess.run(f"patch -p1 --no-backup-if-mismatch < {d}/patch.diff", shell=True, cwd=repo, capture_output=True, text=True)
        if p.returncode != 0:
            out[name] = {"patch_applies": False}
            continue
        res = {}
        for chk in [prop] + CROSS.get(name, []):
            env = dict(os.environ, VERIF_REPO=repo, VERIF_OUT=os.path.join(scratch, "out"), VERIF_BUDGET_S=budget, VERIF_NO_DETPROBE="1")
            env.pop("PYTHONHASHSEED", None)
            q = subprocess.run(f"/venv/bin/python {VERIF}/check.py {chk} --tier quick", shell=True, env=env, capture_output=True, text=True)
            oracle = None
            for line in q.stdout.splitlines():
                if line.startswith("violation:"):
                    oracle = line.split("oracle=")[1].split()[0]
                    break
            res[chk] = {"detected": q.returncode == 1, "rc": q.returncode, "oracle": oracle}
        out[name] = res
        print(name, res, flush=True)
    finally:
        shutil.rmtree(scratch, ignore_errors=True)
json.dump(out, open(os.path.join(VERIF, "seeded", "MATRIX.json"), "w"), indent=1, sort_keys=True)
