#!/bin/bash
# usage: tools/eval_r4.sh C02 C03 ...   evaluates round-5 changes in /tmp/mut5/<ID>/out/{1,2,3} as <ID>-r5-<n>
for id in "$@"; do for n in 1 2 3; do
  d=/tmp/mut5/$id/out/$n
  if [ -f $d/patch.diff ] && [ -f $d/demo.py ]; then
    python3 /verif/tools/eval_seeded.py $d $id $id-r5-$n 2>&1 | grep -v conda
  fi
done; done
