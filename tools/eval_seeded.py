#!/usr/bin/env python3
"""Confirm a sub-agent's seeded change and run the matching check against it.

usage: tools/eval_seeded.py <src dir with patch.diff, demo.py[, meta.json]> <PROPERTY> <name> [--no-suite] [--budget S]

In a scratch copy of /repo (outside /repo and /verif, removed afterwards):
  1. demo.py exits 0 on the clean copy;
  2. the patch applies; demo.py exits non-zero with it;
  3. the repository's test suite gives exactly the baseline's pass/fail sets (unless --no-suite);
  4. the property's quick check is run against the patched copy (VERIF_REPO); detection = exit 1 + VIOLATION line.
Writes /verif/seeded/<name>/{patch.diff,demo.py,meta.json}.
"""
import json, os, shutil, subprocess, sys, tempfile, time

VERIF = os.path.dirname(os.path.dirname(os.path.abspath(__file__)))
PY = "/venv/bin/python"


def sh(cmd, cwd=None, env=None, timeout=3600):
    p = subprocess.run(cmd, shell=True, cwd=cwd, env=env, capture_output=True, text=True, timeout=timeout)
    return p.returncode, p.stdout + p.stderr


def suite_sets(repo):
    junit = os.path.join(repo, "_junit.xml")
    sh(f"{PY} -m pytest -q -p no:cacheprovider --timeout=900 --continue-on-collection-errors --junitxml={junit}", cwd=repo)
    import xml.etree.ElementTree as ET
    passed, failed = set(), set()
    for tc in ET.parse(junit).getroot().iter("testcase"):
        name = tc.get("classname") + "::" + tc.get("name")
        bad = any(ch.tag in ("failure", "error") for ch in tc)
        skipped = any(ch.tag == "skipped" for ch in tc)
        if bad:
            failed.add(name)
        elif not skipped:
            passed.add(name)
    os.remove(junit)
    return passed, failed


def main():
    args = [a for a in sys.argv[1:] if not a.startswith("--")]
    src, prop, name = args[:3]
    no_suite = "--no-suite" in sys.argv
    budget = "40"
    for a in sys.argv:
        if a.startswith("--budget="):
            budget = a.split("=")[1]
    out = {"property": prop, "name": name, "source": src}
    try:
        out["agent_meta"] = json.load(open(os.path.join(src, "meta.json")))
    except Exception:
        out["agent_meta"] = None
    scratch = tempfile.mkdtemp(prefix="verif-seed-", dir="/var/tmp")
    repo = os.path.join(scratch, "repo")
    try:
        sh(f"rsync -a --exclude .git --exclude __pycache__ /repo/ {repo}/")
        env = dict(os.environ, PYTHONPATH=repo, PYTHONDONTWRITEBYTECODE="1")
        demo = os.path.abspath(os.path.join(src, "demo.py"))
        rc, o = sh(f"{PY} {demo}", cwd=repo, env=env, timeout=600)
        out["demo_clean_rc"] = rc
        rc, o = sh(f"patch -p1 --no-backup-if-mismatch < {os.path.abspath(os.path.join(src, 'patch.diff'))}", cwd=repo)
        out["patch_applies"] = (rc == 0)
        if rc != 0:
            out["patch_output"] = o[-800:]
        else:
            rc, o = sh(f"{PY} {demo}", cwd=repo, env=env, timeout=600)
            out["demo_patched_rc"] = rc
            out["demo_patched_tail"] = o[-400:]
            if not no_suite:
                base = json.load(open("/root/.vp/BASELINE.json"))
                p, f = suite_sets(repo)
                bp, bf = set(base["stable_pass"]), set(base["always_fail"])
                out["suite_same_as_baseline"] = (p == bp and f == bf)
                out["suite_newly_failing"] = sorted(bp - p)[:10]
                out["suite_newly_passing"] = sorted(p - bp)[:10]
            od = os.path.join(scratch, "out")
            env2 = dict(os.environ, VERIF_REPO=repo, VERIF_OUT=od, VERIF_BUDGET_S=budget)
            env2.pop("PYTHONHASHSEED", None)
            t0 = time.time()
            rc, o = sh(f"{PY} {VERIF}/check.py {prop} --tier quick", env=env2, timeout=3000)
            out["check_rc"] = rc
            out["check_wall_s"] = round(time.time() - t0, 1)
            out["check_lines"] = [l for l in o.splitlines() if l.startswith(("violation:", "VIOLATION", "KNOWN", "HARNESS", prop + " "))][:8]
            out["detected"] = (rc == 1 and any(l.startswith("VIOLATION") for l in o.splitlines()))
        out["confirmed"] = bool(out.get("demo_clean_rc") == 0 and out.get("patch_applies") and out.get("demo_patched_rc", 0) != 0
                                and (no_suite or out.get("suite_same_as_baseline")))
    finally:
        shutil.rmtree(scratch, ignore_errors=True)
    dst = os.path.join(VERIF, "seeded", name)
    os.makedirs(dst, exist_ok=True)
    for fn in ("patch.diff", "demo.py"):
        shutil.copy(os.path.join(src, fn), os.path.join(dst, fn))
    am = out.pop("agent_meta") or {}
    meta = {"property": prop, "breaks": am.get("summary"), "needs": am.get("needs"), "files": am.get("files"),
            "agent_ran": am.get("ran"),
            "confirmed_by_harness_author": {k: out[k] for k in out if k not in ("source",)},
            "what_i_ran": ["demo.py on clean scratch copy (rc %s)" % out.get("demo_clean_rc"),
                           "patch -p1 + demo.py on patched copy (rc %s)" % out.get("demo_patched_rc"),
                           "full pytest on patched copy vs /root/.vp/BASELINE.json: same=%s" % out.get("suite_same_as_baseline"),
                           "check.py %s --tier quick with VERIF_REPO=<patched copy>: rc %s" % (prop, out.get("check_rc"))]}
    json.dump(meta, open(os.path.join(dst, "meta.json"), "w"), indent=1)
    print(name, "confirmed=%s detected=%s" % (out.get("confirmed"), out.get("detected")), out.get("check_lines", [])[:2])


if __name__ == "__main__":
    main()
