"""C03  Clock domains, resets and control inserters behave as specified."""
from dsim.rng import stream
from dsim.simdrv import Violation
from dsim.runner import Result, finish, run_guarded
from dsim import progen, progdrv

ID = "C03"
TITLE = "Clock domains, resets and control inserters behave as specified"
RULE = ("case = (generated program with 1..3 clock domains (pos/neg edge, sync/async reset, reset-less domains), reset-less "
        "registers, registers whose bits are split between domains and modules, FSMs, module trees with every nesting (<= 3 per "
        "node, stacked along the tree) of ResetInserter / EnableInserter / DomainRenamer; up to two "
        "modules define a domain of their own under an outer domain's name (own clock / reset lines, own edge and reset kind), and "
        "modules read ClockSignal / ResetSignal of those names; scheduler order; explicit step list over "
        "{input writes, inserted-control writes, clock level changes of any subset of domains in one instant, reset line changes "
        "incl. pulses with no clock running}). Non-trivial = a driven signal changed and a fault kind fired; distinct = distinct "
        "SHA-256 of the observation trace.")
ASSUMPTIONS = [
    "Reference: dsim/refint.py with the wrapper semantics composed inside-out exactly as the statement gives them (inserted "
    "reset loads init unless reset-less; inserted enable freezes everything inside it including inserted resets; the domain's "
    "own reset is applied last and never gated; a renamer moves the logic, later wrappers address the new name).",
    "A reset change never shares a step with a clock edge; inputs/controls never change in the same step as an edge.",
    "The clause 'memory ports included': every sixth run is a memory under a non-empty chain of inserters / renamers (controls one "
    "or two bits wide, signed(1), or the late-bound ~ResetSignal of the domain), driven by C11's port-level steps and judged by "
    "C11's row-array reference; a local domain may shadow a rename *target* (open finding F58), never a rename source.",
]
COMPONENTS = {"real": ["amaranth.hdl._cd.ClockDomain", "amaranth.hdl._xfrm (ResetInserter, EnableInserter, DomainRenamer, DomainLowerer)",
                       "amaranth.hdl._ir (domain propagation)", "amaranth.sim._pyrtl (edge wakers, reset block)", "amaranth.sim.pysim"],
              "stub": ["PermSet scheduler seam", "clock/reset driver", "reference interpreter (dsim/refint.py)"]}
EXPECTED_PROBES = ("sched", "coincide", "inactive", "srst", "arst", "gate", "reset_inserter", "enable_inserter", "domain_renamer",
                   "async_domain", "negedge_domain", "reset_less_signal", "edge_under_reset", "submodules", "obs_changes",
                   "clock_signal_read", "reset_signal_read", "shadowing_domain")
OPTS = {"max_domains": 3, "max_modules": 4, "wrappers": True, "prints": False, "fsm": True, "max_stmts": 6, "depth": 1, "clock_reads": True, "shadows": True, "derived_clocks": True}


def gen_case(seed, tier):
    cfg = stream(seed, "cfg")
    wl = stream(seed, "workload")
    fl = stream(seed, "faults")
    sc = stream(seed, "sched")
    prog = progen.gen_program(cfg, OPTS)
    n = cfg.randint(10, 70) if tier == "quick" else cfg.randint(10, 200)
    steps = progdrv.gen_steps(prog, wl, fl, n, p_reset=fl.choice([0.05, 0.15, 0.3]), p_coincide=fl.choice([0.0, 0.3, 0.7]),
                              ctl_bias=1.0, p_mixed=fl.choice([0.0, 0.1, 0.25]))
    return {"prog": prog, "sched": {"mode": sc.choice(["seeded", "seeded", "reverse", "insertion"]), "seed": sc.randrange(1 << 32)},
            "steps": steps}


def gen_case_i(seed, tier, index):
    """Every sixth run exercises the clause "memory ports included": a memory under a non-empty chain of Enable / Reset
    inserters and renamers, judged by C11's row-array reference (C11 draws such wrappers in a third of its own cases)."""
    if index % 6 == 5:
        from props import c11
        for k in range(40):
            c = c11.gen_case(seed + k, tier)
            if c["config"].get("wrap") and (c["config"]["wports"] or c["config"]["rports"]):
                break
        c["kind"] = "wrapped_memory"
        c["rtlil"] = False
        c["restart"] = False
        return c
    return gen_case(seed, tier)


def run_case(case):
    if case.get("kind") == "wrapped_memory":
        from props import c11
        out = c11.run_case(case)
        if isinstance(out.stats, dict):
            out.stats.setdefault("probes", {})["wrapped_memory_case"] = 1
            # (C11's fault / probe names are kept apart from this check's own)
            out.stats["faults"] = {"gate": int(bool(out.stats.get("faults", {}).get("gate"))),
                                   "coincide": int(bool(out.stats.get("faults", {}).get("coincide")))}
        return out
    res = Result()
    stats = {"steps": 0, "edges": 0, "faults": {"sched": 0, "coincide": 0, "inactive": 0, "srst": 0, "arst": 0, "gate": 0, "glitch-in": 0},
             "probes": dict(progdrv.count_features(case["prog"]))}
    holder = {}

    def go():
        holder["pr"] = progdrv.ProgRun(case, stats)
        holder["pr"].execute()

    run_guarded(res, go)
    if stats.get("decisions"):
        stats["faults"]["sched"] = 1
    from dsim.rng import Digest
    dig = holder["pr"].dig if "pr" in holder else Digest()
    nontrivial = stats["probes"].get("obs_changes", 0) > 0 and any(stats["faults"].values())
    return finish(res, dig, stats, nontrivial)


def signature(case, violation):
    if case.get("kind") == "wrapped_memory":
        return {"oracle": violation["oracle"], "kind": "wrapped_memory"}
    sig = {"oracle": violation["oracle"]}
    if violation["oracle"] == "exception":
        sig["exc"] = violation["detail"].get("type")
        sig["where"] = violation["detail"].get("where")
    sig["async"] = any(d["async_reset"] for d in case["prog"]["domains"])
    sig["part_select_on_partly_owned_signal"] = progdrv.partial_part_targets(case["prog"]) > 0
    sig["rename_target_shadowed"] = progdrv.rename_target_shadowed(case["prog"])
    return sig


def simplify(case):
    if case.get("kind") == "wrapped_memory":
        from props import c11
        for c in c11.simplify(case):
            if c["config"].get("wrap"):
                yield c
        return
    yield from progdrv.simplify_prog(case)
