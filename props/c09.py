"""C09  Elaboration and simulation are reproducible."""
import hashlib
import io
import json
import os
import subprocess
import sys

from dsim.rng import stream, Digest, h64
from dsim.simdrv import Violation
from dsim.runner import Result, finish, run_guarded, VERIF, REPO
from dsim.permset import scheduler

ID = "C09"
TITLE = "Elaboration and simulation are reproducible"
RULE = ("three case kinds. (a) hashseed: a batch of generated design recipes (module trees with 2..5 implicitly created clock "
        "domains, name clashes, anonymous submodules, FSMs, memories, library FIFOs/synchronisers in undeclared domains) is "
        "converted to RTLIL in fresh interpreters under 3 distinct PYTHONHASHSEED values and twice in-process (same object, "
        "rebuilt from recipe); all SHA-256 digests must agree. (b) restart: a timeline-mode simulation (2 clocks with seeded "
        "integer-fs periods/phases, 2..4 testbenches and background processes awaiting ticks, delays, edges, changes; critical "
        "blocks) is run to completion giving trace T, then reset after k advance() calls (k seeded, possibly twice) and re-run: "
        "the trace must equal T, also under the shipped hash-ordered scheduler. (c) plan: the same platform recipe prepared "
        "twice gives equal files and digest; archive() is byte-identical across a wall-clock jump; extract() writes exactly "
        "the planned files. Non-trivial = the case did real work (>=2 implicit domains / >=1 reset after >=1 advance / a plan "
        "with a constraint file); distinct = distinct SHA-256 of the case's observations.")
ASSUMPTIONS = [
    "hashseed cases start real interpreters (/venv/bin/python) with PYTHONHASHSEED set; everything else in-process.",
    "restart cases: each testbench starts by reading every signal and memory row, so trace equality includes 'all state is "
    "back at its initial contents after reset()'.",
    "time.time/time.localtime are patched to jump between two archive() calls; extraction goes to a private scratch directory.",
]
COMPONENTS = {"real": ["amaranth.hdl elaboration (Fragment.prepare, _create_missing_domains, name assignment)",
                       "amaranth.back.rtlil", "amaranth.sim.Simulator.reset / PySimEngine.reset / timeline / clock processes / "
                       "AsyncProcess.reset", "amaranth.build.run.BuildPlan (digest, archive, extract)",
                       "amaranth.build.plat + vendor templates"],
              "stub": ["PermSet scheduler seam (insertion / seeded / shipped hash order)", "wall clock (patched)",
                       "scratch directory for extraction"]}
EXPECTED_PROBES = ("hashseed", "restart", "clockjump", "implicit_domains_ge2", "reset_after_timeline_fired",
                   "reset_inside_critical", "double_reset", "name_clash", "anonymous_submodule", "local_domain")
CHUNK = 1
STEP_KEYS = ("recipes", "steps")


# ====================================================================================================================
# (a) design recipes
DOMS = ["a", "b", "c", "d", "e", "sync"]


def gen_recipe(rng):
    nsig = rng.randint(3, 10)
    names = ["x", "y", "z", "x", "q", "state", "clk", "o"]
    sigs = [{"name": rng.choice(names), "width": rng.choice([1, 2, 4, 8]),
             "attrs": rng.choice([None, None, None, {"keep": 1}, {"mark_debug": "true", "keep": 1}])} for _ in range(nsig)]
    ndom = rng.randint(2, 5)
    doms = rng.sample(DOMS, ndom)
    free = list(range(nsig))
    rng.shuffle(free)
    # roles decided up-front so that combinational statements never read combinationally driven signals (no cycles)
    ncomb = rng.randint(0, max(0, nsig // 3))
    comb_targets = set(free[:ncomb])
    readable = [i for i in range(nsig) if i not in comb_targets] or [0]

    def gen_module(depth):
        m = {"stmts": [], "subs": [], "fsm": None, "mem": None, "lib": None}
        for _ in range(rng.randint(0, 3)):
            if len(free) <= 1:
                break
            tgt = free.pop()
            if tgt in comb_targets:
                dom, pool = "comb", readable
            else:
                dom, pool = rng.choice(doms), list(range(nsig))
            st = {"dom": dom, "lhs": tgt, "op": rng.choice(["+", "^", "&", "mux", "cat"]),
                  "a": rng.choice(pool), "b": rng.choice(pool)}
            same = [i for i in pool if i != tgt and sigs[i]["width"] == sigs[tgt]["width"]]
            if dom == "comb" and same and rng.random() < 0.5:
                # a plain copy: two named signals (possibly both with attributes) end up on the same nets
                st["op"], st["a"] = "copy", rng.choice(same)
            m["stmts"].append(st)
        if rng.random() < 0.3:
            m["fsm"] = {"dom": rng.choice(doms), "go": rng.choice(readable), "n": rng.randint(2, 4),
                        "name": rng.choice(["fsm", "x", None])}
        if rng.random() < 0.25:
            m["mem"] = {"wdom": rng.choice(doms), "rdom": rng.choice(doms + ["comb"]), "a": rng.choice(readable),
                        "depth": rng.choice([2, 4, 5])}
        if rng.random() < 0.25:
            m["lib"] = {"kind": rng.choice(["syncfifo", "asyncfifo", "ffsync", "pulse"]),
                        "d1": rng.choice(doms), "d2": rng.choice(doms), "a": rng.choice(readable)}
        if depth > 0 and rng.random() < 0.08:
            # an elaboratable that owns a ClockDomain object (created once, assigned with `m.domains.<name> = cd` in elaborate),
            # wrapped in a DomainRenamer of that domain: the guide says renaming does not mutate the elaboratable
            m["own_cd"] = {"name": rng.choice(doms), "to": rng.choice(["video", "pix"])}
        if rng.random() < 0.1:
            # an elaboratable that builds its black-box Instance once and returns the stored object from elaborate()
            m["stored_inst"] = {"dom": rng.choice(doms), "a": rng.choice(readable)}
        if rng.random() < 0.1:
            # submodules that are dataclasses: two distinct instances that compare equal, or one that is not hashable at all
            m["dataclass_subs"] = rng.choice(["equal_twins", "unhashable"])
        if rng.random() < 0.2:
            # a black-box instance clocked from a (usually implicitly created) domain
            m["inst"] = {"dom": rng.choice(doms), "a": rng.choice(readable)}
        if depth < 3:
            for _ in range(rng.choice([0, 0, 1, 2, 3])):
                m["subs"].append({"name": rng.choice([None, None, "u", "v", "x", "u"]), "m": gen_module(depth + 1)})
        # a submodule may define a *local* domain of a name that siblings (added before or after it) use without defining it
        m["local"] = rng.choice(doms) if (depth > 0 and rng.random() < 0.15) else None
        return m

    top = gen_module(0)
    recipe = {"sigs": sigs, "doms": doms, "top": top, "ports": "listed"}
    used_at_top = sorted({st["dom"] for st in top["stmts"] if st["dom"] != "comb"})
    if used_at_top and rng.random() < 0.2:
        # the port list names the clock / reset of an (implicitly created) domain itself, late bound
        recipe["clock_ports"] = [[rng.choice(["clk", "rst"]), d] for d in rng.sample(used_at_top, rng.randint(1, len(used_at_top)))]
    return recipe


def build_recipe(recipe):
    from amaranth.hdl import Module, Signal, Cat, Mux, Elaboratable
    from amaranth.lib.memory import Memory
    from amaranth.lib import fifo, cdc
    sigs = [Signal(s["width"], name=s["name"], attrs=dict(s["attrs"]) if s.get("attrs") else None) for s in recipe["sigs"]]
    lib_ports = []

    def mk(spec):
        m = Module()
        if spec.get("local"):
            from amaranth.hdl import ClockDomain
            m.domains += ClockDomain(spec["local"], local=True)
        for st in spec["stmts"]:
            a, b = sigs[st["a"]], sigs[st["b"]]
            rhs = {"+": a + b, "^": a ^ b, "&": a & b, "mux": Mux(a[0], b, a), "cat": Cat(a, b), "copy": a}[st["op"]]
            m.d[st["dom"]] += sigs[st["lhs"]].eq(rhs)
        f = spec["fsm"]
        if f:
            kw = {"name": f["name"]} if f["name"] else {}
            with m.FSM(domain=f["dom"], **kw):
                for k in range(f["n"]):
                    with m.State("S%d" % k):
                        with m.If(sigs[f["go"]][0]):
                            m.next = "S%d" % ((k + 1) % f["n"])
        mm = spec["mem"]
        if mm:
            mem = Memory(shape=4, depth=mm["depth"], init=[1, 2])
            m.submodules.mem = mem
            wp = mem.write_port(domain=mm["wdom"])
            rp = mem.read_port(domain=mm["rdom"])
            a = sigs[mm["a"]]
            m.d.comb += [wp.addr.eq(a), wp.data.eq(a), wp.en.eq(a[0]), rp.addr.eq(a)]
            lib_ports.append(rp.data)
        lb = spec["lib"]
        if lb:
            a = sigs[lb["a"]]
            if lb["kind"] == "syncfifo":
                q = fifo.SyncFIFO(width=4, depth=3)
                from amaranth.hdl import DomainRenamer
                m.submodules.q = DomainRenamer(lb["d1"])(q)
                m.d.comb += [q.w_data.eq(a), q.w_en.eq(a[0]), q.r_en.eq(1)]
                lib_ports.append(q.r_data)
            elif lb["kind"] == "asyncfifo":
                q = fifo.AsyncFIFO(width=4, depth=4, r_domain=lb["d1"], w_domain=lb["d2"])
                m.submodules.q = q
                m.d.comb += [q.w_data.eq(a), q.w_en.eq(a[0]), q.r_en.eq(1)]
                lib_ports.append(q.r_data)
            elif lb["kind"] == "ffsync":
                o = Signal(len(a), name="sync_o")
                m.submodules.s = cdc.FFSynchronizer(a, o, o_domain=lb["d1"])
                lib_ports.append(o)
            else:
                p = cdc.PulseSynchronizer(lb["d1"], lb["d2"])
                m.submodules.p = p
                m.d.comb += p.i.eq(a[0])
                lib_ports.append(p.o)
        oc = spec.get("own_cd")
        if oc:
            from amaranth.hdl import ClockDomain, DomainRenamer

            class Own(Elaboratable):
                def __init__(self):
                    self.cd = ClockDomain(oc["name"])
                    self.q = Signal(name="own_q")

                def elaborate(self, platform):
                    mm = Module()
                    setattr(mm.domains, oc["name"], self.cd)
                    mm.d[oc["name"]] += self.q.eq(~self.q)
                    return mm
            own = Own()
            m.submodules.own = DomainRenamer({oc["name"]: oc["to"]})(own)
            lib_ports.append(own.q)
        si_ = spec.get("stored_inst")
        if si_:
            from amaranth.hdl import Instance, ClockSignal

            class Stored(Elaboratable):
                def __init__(self):
                    self.q = Signal(2, name="st_q")
                    self.inst = Instance("blackbox2", i_clk=ClockSignal(si_["dom"]), i_a=sigs[si_["a"]], o_q=self.q)

                def elaborate(self, platform):
                    return self.inst
            st_ = Stored()
            m.submodules.stored = st_
            lib_ports.append(st_.q)
        dcs = spec.get("dataclass_subs")
        if dcs:
            import dataclasses

            @dataclasses.dataclass(unsafe_hash=(dcs == "equal_twins"))
            class Inv(Elaboratable):
                width: int

                def __post_init__(self):
                    self.i = Signal(self.width, name="inv_i")
                    self.o = Signal(self.width, name="inv_o")

                def elaborate(self, platform):
                    mm = Module()
                    mm.d.comb += self.o.eq(~self.i)
                    return mm
            for k_ in range(2 if dcs == "equal_twins" else 1):
                iv = Inv(3)
                m.submodules["inv%d" % k_] = iv
                m.d.comb += iv.i.eq(sigs[0])
                lib_ports.append(iv.o)
        ins = spec.get("inst")
        if ins:
            from amaranth.hdl import Instance, ClockSignal, ResetSignal
            q = Signal(2, name="bb_q")
            m.submodules.bb = Instance("blackbox", i_clk=ClockSignal(ins["dom"]), i_rst=ResetSignal(ins["dom"], allow_reset_less=True),
                                       i_a=sigs[ins["a"]], o_q=q)
            lib_ports.append(q)
        for sub in spec["subs"]:
            if sub["name"] is None:
                m.submodules += mk(sub["m"])
            else:
                # identical names for siblings are rejected by Module; disambiguate deterministically
                nm = sub["name"]
                k = 0
                while nm in m._named_submodules:
                    k += 1
                    nm = "%s%d" % (sub["name"], k)
                m.submodules[nm] = mk(sub["m"])
        return m

    top = mk(recipe["top"])
    ports = None
    if recipe["ports"] == "listed":
        ports = list(sigs) + lib_ports
        from amaranth.hdl import ClockSignal, ResetSignal
        ports += [(ClockSignal if k == "clk" else ResetSignal)(d) for k, d in recipe.get("clock_ports", [])]
    return top, ports


def convert_digest(recipe, again=False, as_fragment=False):
    from amaranth.back import rtlil
    if "progen" in recipe:
        # a generated Module-DSL program (If/Switch/FSM bodies mixing several domains, wrappers, submodules); its domains are
        # left undeclared so that they are created implicitly
        from dsim import progen
        B = progen.build(recipe["progen"])
        top, ports = B.top, list(B.sigs)
    else:
        top, ports = build_recipe(recipe)
    before = [dict(p.attrs) for p in ports if hasattr(p, "attrs")]
    if as_fragment and ports is not None:
        # the design is handed over as a Fragment obtained once (as docs/stdlib/io.rst does), and that same object is converted
        # again: the result must still be that of the design
        from amaranth.hdl import Fragment
        top = Fragment.get(top, None)
    text = rtlil.convert(top, ports=ports)
    if again:
        # the very same object once more: elaboration must not leave anything behind that changes the result
        cwd0 = os.getcwd()
        try:
            # (from another working directory: where the process happens to stand is not part of the design)
            os.chdir(os.path.dirname(cwd0.rstrip("/")) or "/")
            text2 = rtlil.convert(top, ports=ports)
        except Exception as e:
            return "SECOND-CONVERSION-FAILED:" + type(e).__name__, text
        finally:
            os.chdir(cwd0)
        if text2 != text:
            return "SAME-OBJECT-DIFFERS", text
        if before != [dict(p.attrs) for p in ports if hasattr(p, "attrs")]:
            return "SAME-OBJECT-DIFFERS", "conversion changed the attributes of the design's own signals"
    return hashlib.sha256(text.encode()).hexdigest(), text


def worker_main():
    """Entry for `check.py --c09-worker`: recipes (JSON list) on stdin -> one digest per line."""
    import warnings
    warnings.simplefilter("ignore")
    recipes = json.load(sys.stdin)
    for r in recipes:
        try:
            if "plan_case" in r:
                d = plan_digest(r["plan_case"])
            else:
                d, _ = convert_digest(r)
        except Exception as e:
            d = "EXC:" + type(e).__name__
        print("D " + d)
    return 0


def prepare_plan(case):
    import warnings
    from props import c19
    from amaranth.hdl import Module, Signal, Cat
    from amaranth.lib import io as aio
    plat, ext = c19.make_platform(case["config"])
    m = Module()
    sink = []
    k = 0
    with warnings.catch_warnings():
        warnings.simplefilter("ignore")
        for op in case["steps"]:
            try:
                obj = plat.request(op["name"], op["number"], dir="-")
            except Exception:
                continue
            res_desc = next(r for r in case["config"]["resources"] if r["name"] == op["name"] and r["number"] == op["number"])
            for (path, node, p, n, hops) in c19.leaves(case["config"], res_desc):
                o = obj
                for nm in path[1:]:
                    o = getattr(o, nm)
                d = {"i": "i", "o": "o", "oe": "o", "io": "io"}[node["dir"]]
                buf = aio.Buffer(d, o)
                m.submodules["b%d" % k] = buf
                k += 1
                if d != "o":
                    sink.append(buf.i)
        out = Signal(name="sink_out")
        if sink:
            m.d.comb += out.eq(Cat(*sink).xor())
        if case.get("internal_clock"):
            # a clock constraint on an internal net of a submodule: the constraint file names it by its hierarchical path
            from amaranth.hdl import Period
            sub = Module()
            slow = Signal(name="slow_clk")
            sub.d.comb += slow.eq(~out)
            m.submodules.divider = sub
            plat.add_clock_constraint(slow, Period(MHz=case["internal_clock"]))
        plan = plat.build(m, do_build=False)
    return plan, ext


def plan_digest(case):
    plan, _ = prepare_plan(dict(case, config=dict(case["config"], default_clk=None)))
    d = plan.digest()
    return d.hex() if isinstance(d, bytes) else str(d)


def count_implicit(recipe):
    if "progen" in recipe:
        return len(recipe["progen"]["domains"])
    used = set()

    def walk(spec):
        for st in spec["stmts"]:
            used.add(st["dom"])
        if spec["fsm"]:
            used.add(spec["fsm"]["dom"])
        if spec["mem"]:
            used.add(spec["mem"]["wdom"])
            used.add(spec["mem"]["rdom"])
        if spec["lib"]:
            used.add(spec["lib"]["d1"])
            if spec["lib"]["kind"] in ("asyncfifo", "pulse"):
                used.add(spec["lib"]["d2"])
        for s in spec["subs"]:
            walk(s["m"])
    walk(recipe["top"])
    used.discard("comb")
    return len(used)


def run_hashseed(case, res, dig, stats):
    recipes = case["recipes"]
    P = stats["probes"]
    for r in recipes:
        if count_implicit(r) >= 2:
            P["implicit_domains_ge2"] += 1
        if "progen" in r:
            continue
        txt = json.dumps(r)
        if '"name": null' in txt:
            P["anonymous_submodule"] += 1
        if '"local": "' in txt:
            P["local_domain"] = P.get("local_domain", 0) + 1
        names = [s["name"] for s in r["sigs"]]
        if len(set(names)) < len(names):
            P["name_clash"] += 1
    results = {}
    for hs in case["hashseeds"]:
        env = dict(os.environ, PYTHONHASHSEED=str(hs), PYTHONDONTWRITEBYTECODE="1",
                   PYTHONPATH=REPO + os.pathsep + VERIF)
        p = subprocess.run([sys.executable, os.path.join(VERIF, "check.py"), "--c09-worker"],
                           input=json.dumps(recipes), capture_output=True, text=True, env=env, timeout=600)
        ds = [l[2:] for l in p.stdout.splitlines() if l.startswith("D ")]
        if p.returncode != 0 or len(ds) != len(recipes):
            raise RuntimeError("c09 worker failed: rc=%s %s" % (p.returncode, (p.stdout + p.stderr)[-800:]))
        results[hs] = ds
        stats["faults"]["hashseed"] += 1
    # in-process: rebuilt from the recipe twice
    inproc1 = []
    inproc2 = []
    for r in recipes:
        try:
            inproc1.append(convert_digest(r, again=True, as_fragment=bool(r.get("as_fragment")))[0])
            inproc2.append(convert_digest(r)[0])
        except Exception as e:
            inproc1.append("EXC:" + type(e).__name__)
            inproc2.append("EXC:" + type(e).__name__)
    for i, r in enumerate(recipes):
        ds = {hs: results[hs][i] for hs in results}
        excs = sorted({v for v in list(ds.values()) + [inproc1[i]] if v.startswith("EXC:")})
        if excs:
            # recipes are legal by construction: a design that cannot be converted is a finding in itself
            raise Violation("legal_design_rejected", i, {"recipe_index": i, "exceptions": excs})
        if len(set(ds.values())) > 1:
            raise Violation("rtlil_differs_across_hash_seeds", i,
                            {"recipe_index": i, "digests": {str(k): v[:16] for k, v in ds.items()},
                             "implicit_domains": count_implicit(r)})
        if inproc1[i].startswith("SECOND-CONVERSION-FAILED:"):
            raise Violation("second_conversion_of_same_object_fails", i, {"recipe_index": i, "type": inproc1[i].split(":", 1)[1],
                                                                          "own_clock_domain_under_renamer": '"own_cd": {' in json.dumps(r)})
        as_frag = bool(r.get("as_fragment"))
        if as_frag:
            P["fragment_object_converted_twice"] = P.get("fragment_object_converted_twice", 0) + 1
        if inproc1[i] == "SAME-OBJECT-DIFFERS":
            raise Violation("rtlil_differs_when_same_object_is_converted_twice", i, {"recipe_index": i, "as_fragment": as_frag})
        if inproc1[i] != inproc2[i]:
            raise Violation("rtlil_differs_between_two_builds_in_one_interpreter", i, {"recipe_index": i})
        if inproc1[i] != next(iter(ds.values())):
            # the parent interpreter runs with PYTHONHASHSEED=0: yet another seed
            raise Violation("rtlil_differs_across_hash_seeds", i,
                            {"recipe_index": i, "digests": {"parent": inproc1[i][:16],
                                                            "child": next(iter(ds.values()))[:16]}})
        stats["steps"] += 1
    dig.add(inproc1)
    return any(count_implicit(r) >= 2 for r in recipes)


# ====================================================================================================================
# (b) restart histories
def gen_restart(cfg, wl, fl, tier):
    p1 = cfg.choice([2, 3, 4, 6, 7, 10, 11, 100, 1000, 1001])
    p2 = cfg.choice([2, 3, 4, 5, 8, 10, 13, 64, 1000, 999])
    depth = cfg.choice([2, 3, 4, 5])
    design = {"w1": cfg.choice([2, 3, 4]), "w2": cfg.choice([2, 3, 5]), "depth": depth,
              "init": [cfg.randrange(16) for _ in range(cfg.randint(0, min(3, depth)))],
              "clocks": {"sync": {"period": p1, "phase": cfg.choice([None, 0, 1, p1 // 2, p1, 3])},
                         "other": {"period": p2, "phase": cfg.choice([None, 0, 1, p2 // 2, p1 // 2, 5])}}}
    ntb = cfg.randint(1, 3)
    tbs = []
    maxp = max(p1, p2)
    for t in range(ntb):
        ops = []
        for _ in range(wl.randint(2, 10 if tier == "quick" else 25)):
            k = wl.choice(["tick", "tick", "tickn", "delay", "set", "get", "edge", "changed", "sample", "delay0"])
            if k == "tick":
                ops.append({"k": "tick", "dom": wl.choice(["sync", "other"])})
            elif k == "tickn":
                ops.append({"k": "tickn", "dom": wl.choice(["sync", "other"]), "n": wl.randint(1, 4)})
            elif k == "delay":
                ops.append({"k": "delay", "fs": wl.choice([1, 2, 3, maxp, maxp * 2 + 1, wl.randint(1, 3 * maxp)])})
            elif k == "delay0":
                ops.append({"k": "delay", "fs": 0})
            elif k == "set":
                ops.append({"k": "set", "sig": wl.choice(["en", "go", "wen", "raddr"]), "v": wl.randrange(8)})
            elif k == "get":
                ops.append({"k": "get"})
            elif k == "edge":
                ops.append({"k": "edge", "sig": wl.choice(["a0", "a1"]), "pol": wl.randint(0, 1)})   # a counts freely: always fires
            elif k == "changed":
                ops.append({"k": "changed", "sig": "a"})
            else:
                ops.append({"k": "sample", "dom": wl.choice(["sync", "other"])})
        tbs.append(ops)
    bg = {"period": wl.choice([3, 5, maxp + 1, 2 * maxp]), "critical_ticks": wl.choice([0, 1, 2]),
          "enabled": fl.random() < 0.7, "cleanup": fl.random() < 0.4}
    proc = {"enabled": fl.random() < 0.7, "match": wl.randrange(4), "cleanup": fl.random() < 0.4}
    resets = [fl.randint(0, 40)]
    if fl.random() < 0.4:
        resets.append(fl.randint(0, 20))
    rsteps = [{"reset_after": k} for k in resets]
    if fl.random() < 0.35:
        # crash: a user process dies in the middle of a delta cycle (often that of a clock edge) right after writing a
        # memory row and an input signal; reset() must wipe all of it
        t = fl.choice([fl.randint(0, 3 * maxp), p1 * fl.randint(0, 4) + (design["clocks"]["sync"]["phase"] or 0),
                       p2 * fl.randint(0, 4) + (design["clocks"]["other"]["phase"] or 0)])
        rsteps.insert(fl.randint(0, len(rsteps)), {"reset_after": 0, "crash_fs": t, "row": fl.randrange(depth)})
    return {"kind": "restart", "design": design, "tbs": tbs, "bg": bg, "proc": proc, "steps": rsteps,
            "legacy_tb": fl.choice([0, 0, 3, maxp + 1]),
            "sched": {"mode": fl.choice(["seeded", "insertion", "reverse"]), "seed": fl.randrange(1 << 32)}}


class CrashInjected(Exception):
    pass


def build_restart_design(d):
    from amaranth.hdl import Module, Signal, Elaboratable, ClockDomain
    from amaranth.lib.memory import Memory

    class D(Elaboratable):
        def __init__(self):
            self.a = Signal(d["w1"])
            self.b = Signal(d["w2"], init=1)
            self.en = Signal(init=1)
            self.go = Signal()
            self.wen = Signal()
            self.raddr = Signal(3)
            self.c = Signal(d["w1"] + d["w2"])
            self.st = Signal(2)
            self.flag = Signal(4)          # driven by the background process
            self.flag2 = Signal(4)         # driven by a combinational-replacement process (async for ... in ctx.changed())
            self.rdata = Signal(4)
            self.mem = Memory(shape=4, depth=d["depth"], init=d["init"])

        def elaborate(self, platform):
            m = Module()
            m.domains.sync = ClockDomain()
            m.domains.other = ClockDomain()
            m.d.sync += self.a.eq(self.a + 1)
            with m.If(self.en):
                m.d.other += self.b.eq(self.b + self.a[0] + 1)
            m.d.comb += self.c.eq(self.a * 3 + self.b)
            with m.FSM(domain="other"):
                with m.State("A"):
                    m.d.comb += self.st.eq(0)
                    with m.If(self.go):
                        m.next = "B"
                with m.State("B"):
                    m.d.comb += self.st.eq(1)
                    m.next = "C"
                with m.State("C"):
                    m.d.comb += self.st.eq(2)
                    with m.If(~self.go):
                        m.next = "A"
            m.submodules.mem = self.mem
            wp = self.mem.write_port(domain="sync")
            rp = self.mem.read_port(domain="comb")
            m.d.comb += [wp.addr.eq(self.a), wp.data.eq(self.c), wp.en.eq(self.wen), rp.addr.eq(self.raddr),
                         self.rdata.eq(rp.data)]
            return m
    return D()


def simulate_restart(case, stats, mode=None):
    """-> (T, traces after each reset).  One Simulator object throughout."""
    from amaranth.hdl import Period
    from amaranth.sim import Simulator
    sched = case["sched"] if mode is None else {"mode": mode, "seed": 0}
    d = case["design"]
    log = []
    with scheduler(sched["mode"], sched["seed"]) as S:
        dut = build_restart_design(d)
        sim = Simulator(dut)
        for dom, c in d["clocks"].items():
            kw = {}
            if c["phase"] is not None:
                kw["phase"] = Period(fs=c["phase"])
            sim.add_clock(Period(fs=c["period"]), domain=dom, **kw)
        sigs = {"en": dut.en, "go": dut.go, "wen": dut.wen, "raddr": dut.raddr, "a": dut.a, "b": dut.b,
                "a0": dut.a[0], "a1": dut.a[1]}
        in_critical = [0]

        def snapshot(ctx):
            vals = [ctx.get(s) for s in (dut.a, dut.b, dut.c, dut.st, dut.flag, dut.flag2, dut.rdata, dut.en, dut.go, dut.wen,
                                         dut.raddr)]
            rows = [ctx.get(dut.mem.data[i]) for i in range(d["depth"])]
            return vals + rows

        def mk_tb(ti, ops):
            async def tb(ctx):
                log.append((ti, "init", ctx.elapsed_time().femtoseconds, snapshot(ctx)))
                for oi, op in enumerate(ops):
                    k = op["k"]
                    if k == "tick":
                        await ctx.tick(op["dom"])
                        v = None
                    elif k == "tickn":
                        await ctx.tick(op["dom"]).repeat(op["n"])
                        v = None
                    elif k == "delay":
                        await ctx.delay(Period(fs=op["fs"]))
                        v = None
                    elif k == "set":
                        s = sigs[op["sig"]]
                        ctx.set(s, op["v"] & ((1 << len(s)) - 1))
                        v = None
                    elif k == "get":
                        v = snapshot(ctx)
                    elif k == "edge":
                        v = await ctx.edge(sigs[op["sig"]], op["pol"])
                        v = list(v) if isinstance(v, tuple) else v
                    elif k == "changed":
                        v = await ctx.changed(sigs[op["sig"]])
                        v = list(v) if isinstance(v, tuple) else v
                    else:
                        v = await ctx.tick(op["dom"]).sample(dut.a, dut.b, dut.c)
                        v = [int(x) if not isinstance(x, bool) else x for x in v]
                    log.append((ti, oi, ctx.elapsed_time().femtoseconds, v, snapshot(ctx)))
            return tb

        for ti, ops in enumerate(case["tbs"]):
            sim.add_testbench(mk_tb(ti, ops))
        if case["bg"]["enabled"]:
            bg = case["bg"]

            async def background(ctx):
                n = 0
                try:
                    while True:
                        await ctx.delay(Period(fs=bg["period"]))
                        n += 1
                        if bg["critical_ticks"]:
                            with ctx.critical():
                                in_critical[0] += 1
                                for _ in range(bg["critical_ticks"]):
                                    await ctx.tick("sync")
                                ctx.set(dut.raddr, n & 7)
                                in_critical[0] -= 1
                        else:
                            ctx.set(dut.raddr, n & 7)
                finally:
                    # clean-up code of a testbench that is abandoned while suspended (reset() replaces its coroutine): whatever
                    # it writes belongs to the run that is being abandoned, not to the next one
                    if bg.get("cleanup"):
                        ctx.set(dut.en, 0)
                        P["cleanup_ran"] = P.get("cleanup_ran", 0) + 1
            sim.add_testbench(background, background=True)
        if case["proc"]["enabled"]:
            pr = case["proc"]

            async def process(ctx):
                count = 0
                try:
                    async for clk, rst, a in ctx.tick("sync").sample(dut.a):
                        if (a & 3) == pr["match"]:
                            count += 1
                            ctx.set(dut.flag, count & 15)
                finally:
                    # (clean-up code of a process abandoned by reset(): like the background testbench's, it belongs to the old run)
                    if pr.get("cleanup"):
                        ctx.set(dut.flag, 9)
                        P["process_cleanup_ran"] = P.get("process_cleanup_ran", 0) + 1
            sim.add_process(process)

            async def comb_process(ctx):
                # docs/simulator.rst: replacing combinational logic; the first wake-up at time 0 computes the initial output
                async for (av,) in ctx.changed(dut.a):
                    ctx.set(dut.flag2, (av ^ 5) & 15)
            sim.add_process(comb_process)

            async def watcher(ctx):
                # a process that watches a combinationally driven signal: every change it is told about, with its instant
                # (after reset() the signal starts from its initial value again - no change is left over from the old run)
                n_seen = 0
                async for (cv,) in ctx.changed(dut.c):
                    n_seen += 1
                    if n_seen <= 40:
                        log.append((97, "c_changed", ctx.elapsed_time().femtoseconds, int(cv)))
            sim.add_process(watcher)

        if case.get("legacy_tb"):
            # a testbench in the deprecated generator style (still supported): restarted by reset() like any other
            from amaranth.sim import Delay as _Delay

            def legacy():
                yield _Delay(case["legacy_tb"] * 1e-15)       # (the legacy command takes seconds)
                va = yield dut.a
                log.append((98, "legacy", int(va)))
                yield dut.go.eq(1)
                yield _Delay(case["legacy_tb"] * 1e-15)       # (the legacy command takes seconds)
                vb = yield dut.b
                log.append((98, "legacy2", int(vb)))
            import warnings as _w
            with _w.catch_warnings():
                _w.simplefilter("ignore")
                sim.add_testbench(legacy)
            stats["probes"]["generator_style_testbench"] = stats["probes"].get("generator_style_testbench", 0) + 1

        armed = [None]

        async def crasher(ctx):
            st = armed[0]
            if st is None:
                return
            await ctx.delay(Period(fs=st["crash_fs"]))
            ctx.set(dut.mem.data[st["row"] % d["depth"]], 9)
            ctx.set(dut.go, 1)
            raise CrashInjected()
        sim.add_process(crasher)

        sim.run()
        T = list(log)
        end_fs = sim._engine.now
        traces = []
        P = stats["probes"]
        for ri, st in enumerate(case["steps"]):
            sim.reset()
            in_critical[0] = 0
            log.clear()
            k = st["reset_after"]
            did = 0
            alive = True
            if st.get("crash_fs") is not None:
                armed[0] = st
                try:
                    sim.run()
                except CrashInjected:
                    P["crash_mid_delta"] = P.get("crash_mid_delta", 0) + 1
                    stats["faults"]["crash"] = stats["faults"].get("crash", 0) + 1
                armed[0] = None
            while did < k and alive:
                alive = sim.advance()
                did += 1
            if did > 0:
                stats["faults"]["restart"] += 1
                if sim._engine.now > 0:
                    P["reset_after_timeline_fired"] += 1
            if in_critical[0] > 0:
                P["reset_inside_critical"] += 1
            if ri > 0:
                P["double_reset"] += 1
            sim.reset()
            in_critical[0] = 0
            log.clear()
            sim.run()
            traces.append(list(log))
        stats["sim_fs"] += end_fs
        stats["decisions"] += S.decisions
    return T, traces


def run_restart(case, res, dig, stats):
    T, traces = simulate_restart(case, stats)
    stats["steps"] += len(T)
    for ri, tr in enumerate(traces):
        if tr != T:
            n = next((i for i, (x, y) in enumerate(zip(tr, T)) if x != y), min(len(tr), len(T)))
            raise Violation("trace_differs_after_reset", ri,
                            {"reset_index": ri, "reset_after_advances": case["steps"][ri]["reset_after"],
                             "first_difference_at": n, "len_T": len(T), "len_after": len(tr),
                             "expected": json.loads(json.dumps(T[n] if n < len(T) else None, default=str)),
                             "got": json.loads(json.dumps(tr[n] if n < len(tr) else None, default=str))})
    # same workload under the shipped (hash-ordered) scheduler and a fixed order: identical trace
    T2, _ = simulate_restart(dict(case, steps=[]), stats, mode="hash")
    if T2 != T:
        n = next((i for i, (x, y) in enumerate(zip(T2, T)) if x != y), min(len(T2), len(T)))
        raise Violation("trace_differs_between_two_runs", -1, {"first_difference_at": n, "modes": [case["sched"]["mode"], "hash"]})
    dig.add(json.loads(json.dumps(T, default=str)))
    return stats["faults"]["restart"] > 0


# ====================================================================================================================
# (c) build plans
def run_plan(case, res, dig, stats):
    import tempfile
    import shutil
    import time
    import warnings
    from props import c19
    from amaranth.hdl import Module, Signal, Cat
    from amaranth.lib import io as aio

    def prepare():
        return prepare_plan(dict(case, config=dict(case["config"], default_clk=None)))

    plan1, ext = prepare()
    plan2, _ = prepare()
    f1 = {k: (v if isinstance(v, bytes) else v.encode()) for k, v in plan1.files.items()}
    f2 = {k: (v if isinstance(v, bytes) else v.encode()) for k, v in plan2.files.items()}
    if f1 != f2:
        bad = sorted(k for k in set(f1) | set(f2) if f1.get(k) != f2.get(k))
        raise Violation("plan_files_differ", -1, {"files": bad[:5]})
    if plan1.digest() != plan2.digest():
        raise Violation("plan_digest_differs", -1, {})
    # ... and in a fresh interpreter with another string-hash seed
    hs = 1 + (case.get("hashseed", 4242) % 99999)
    env = dict(os.environ, PYTHONHASHSEED=str(hs), PYTHONDONTWRITEBYTECODE="1", PYTHONPATH=REPO + os.pathsep + VERIF)
    pc = {"config": case["config"], "steps": case["steps"], "internal_clock": case.get("internal_clock")}
    pr = subprocess.run([sys.executable, os.path.join(VERIF, "check.py"), "--c09-worker"],
                        input=json.dumps([{"plan_case": pc}]), capture_output=True, text=True, env=env, timeout=600)
    ds = [l[2:] for l in pr.stdout.splitlines() if l.startswith("D ")]
    if pr.returncode != 0 or len(ds) != 1:
        raise RuntimeError("c09 plan worker failed: %s" % (pr.stdout + pr.stderr)[-600:])
    mine = plan1.digest()
    mine = mine.hex() if isinstance(mine, bytes) else str(mine)
    stats["faults"]["hashseed"] += 1
    if ds[0] != mine:
        raise Violation("plan_digest_differs_across_hash_seeds", -1, {"parent": mine[:16], "child": ds[0][:16], "hashseed": hs})
    # archive across a wall-clock jump
    real_time, real_local = time.time, time.localtime
    buf1, buf2 = io.BytesIO(), io.BytesIO()
    try:
        plan1.archive(buf1)
        time.time = lambda: real_time() + 86400.0 * 400
        time.localtime = lambda *a: real_local(real_time() + 86400.0 * 400) if not a else real_local(*a)
        stats["faults"]["clockjump"] += 1
        plan1.archive(buf2)
    finally:
        time.time, time.localtime = real_time, real_local
    if buf1.getvalue() != buf2.getvalue():
        raise Violation("archive_not_deterministic", -1, {"len1": len(buf1.getvalue()), "len2": len(buf2.getvalue())})
    import zipfile
    with zipfile.ZipFile(io.BytesIO(buf1.getvalue())) as z:
        members = {n: z.read(n) for n in z.namelist()}
    if members != f1:
        raise Violation("archive_contents", -1, {"members": sorted(members)[:6], "planned": sorted(f1)[:6]})
    scratch = os.path.realpath(tempfile.mkdtemp(prefix="verif-c09-", dir="/var/tmp"))
    cwd = os.getcwd()
    try:
        os.chdir(scratch)
        # fault: a plan that tries to leave the build root is refused in the middle of extraction; the process must be left
        # as it was (working directory!), and a following legal extraction into a relative root must land where it should
        from amaranth.build.run import BuildPlan
        bad = BuildPlan(script="build_bad")
        bad.add_file("ok.txt", "fine")
        bad.add_file("../escape.txt", "nope")
        try:
            bad.extract("bad_build")
        except AssertionError:
            stats["faults"]["refuse_extract"] = stats["faults"].get("refuse_extract", 0) + 1
        else:
            raise Violation("illegal_plan_extracted", -1, {"file": "../escape.txt"})
        if os.getcwd() != scratch:
            raise Violation("extract_changed_cwd", -1, {"cwd": os.getcwd(), "after": "refused extraction"})
        if os.path.exists(os.path.join(scratch, "escape.txt")):
            raise Violation("extract_wrote_outside_root", -1, {"entries": ["escape.txt"]})
        # (the build root is not empty: an earlier build left a file of the same name and size as a planned one, with other contents)
        stale = next((k for k in sorted(f1) if len(f1[k]) > 0 and "/" not in k), None)
        if stale is not None:
            os.makedirs(os.path.join(scratch, "build"), exist_ok=True)
            with open(os.path.join(scratch, "build", stale), "wb") as fh:
                fh.write(bytes((b ^ 0x20) if b != 0x0a else b for b in f1[stale]))
            stats["faults"]["stale_file"] = stats["faults"].get("stale_file", 0) + 1
        root = plan1.extract("build")
        if os.path.realpath(str(root)) != os.path.join(scratch, "build"):
            raise Violation("extract_wrong_root", -1, {"root": str(root), "expected": os.path.join(scratch, "build")})
        got = {}
        for dp, dn, fn in os.walk(os.path.join(scratch, "build")):
            for f in fn:
                full = os.path.join(dp, f)
                got[os.path.relpath(full, os.path.join(scratch, "build"))] = open(full, "rb").read()
        if got != f1:
            raise Violation("extract_contents", -1, {"written": sorted(got)[:8], "planned": sorted(f1)[:8]})
        if os.getcwd() != scratch:
            raise Violation("extract_changed_cwd", -1, {"cwd": os.getcwd()})
        others = [x for x in os.listdir(scratch) if x not in ("build", "bad_build")]
        if others:
            raise Violation("extract_wrote_outside_root", -1, {"entries": others})
    finally:
        os.chdir(cwd)
        shutil.rmtree(scratch, ignore_errors=True)
    stats["steps"] += len(f1)
    d_final = plan1.digest()
    dig.add(d_final.hex() if isinstance(d_final, bytes) else str(d_final))
    # the digest is a function of the plan's files, not of what was asked of the plan object before: the same file added to this
    # plan (whose digest has been read several times) and to a freshly prepared one (never asked) gives the same files, hence
    # the same digest - and not the digest of the plan without the file
    plan3, _ = prepare()
    for pl_ in (plan1, plan3):
        pl_.add_file("verif_extra.txt", "one more file\n")
    g1 = {k: (v if isinstance(v, bytes) else v.encode()) for k, v in plan1.files.items()}
    g3 = {k: (v if isinstance(v, bytes) else v.encode()) for k, v in plan3.files.items()}
    if g1 == g3 and plan1.digest() != plan3.digest():
        raise Violation("plan_digest_depends_on_history", -1, {"files_equal": True})
    if plan1.digest() == d_final:
        raise Violation("plan_digest_ignores_added_file", -1, {})
    stats["probes"]["digest_after_add_file"] = stats["probes"].get("digest_after_add_file", 0) + 1
    return any(k.endswith(ext.split("+")[0]) for k in f1)


# ====================================================================================================================
def gen_case_i(seed, tier, index):
    cfg = stream(seed, "cfg")
    wl = stream(seed, "workload")
    fl = stream(seed, "faults")
    kind = ["hashseed", "restart", "restart", "prog_restart", "plan", "restart", "hashseed", "restart"][index % 8]
    if kind == "prog_restart":
        # an arbitrary generated program (manual-mode clocks/resets): run, Simulator.reset(), run again
        from props import c03
        from dsim import progdrv
        c = c03.gen_case(seed, tier)
        for k_ in range(1, 40):
            # (programs with the construct behind open finding F58 - a local domain shadowing a rename target - are C03's business:
            # what the wrapped logic does there is judged, and listed as known, under C03 only)
            if not progdrv.rename_target_shadowed(c["prog"]):
                break
            c = c03.gen_case(seed + k_, tier)
        c["kind"] = "prog_restart"
        return c
    if kind == "hashseed":
        n = 8 if tier == "quick" else 24
        hs = fl.sample(range(1, 100000), 3)
        from dsim import progen
        recipes = []
        for k in range(n):
            if k % 2:
                prog = progen.gen_program(cfg, {"max_domains": 3, "max_modules": 3, "wrappers": cfg.random() < 0.4, "max_stmts": 6,
                                                "allow_async": False, "zero_width": False})
                for sg in prog["signals"]:        # port names must be unique and non-empty: make them so
                    sg["name"] = sg["name"] + str(prog["signals"].index(sg))
                recipes.append({"progen": prog})
            else:
                recipes.append(gen_recipe(cfg))
        for r in recipes:
            if fl.random() < 0.3:
                r["as_fragment"] = True
        return {"kind": "hashseed", "recipes": recipes, "hashseeds": hs}
    if kind == "restart":
        return gen_restart(cfg, wl, fl, tier)
    from props import c19
    c = c19.gen_case(seed, tier)
    return {"kind": "plan", "config": c["config"], "steps": [op for op in c["steps"]], "hashseed": fl.randrange(1, 99999),
            "internal_clock": fl.choice([0, 6, 25])}


def gen_case(seed, tier):
    return gen_case_i(seed, tier, seed % 8)


def run_prog_restart(case, res, dig, stats):
    """Generated program: every signal / FSM state is compared with the reference interpreter in both runs, and the second run
    (after Simulator.reset()) must produce the identical observation trace."""
    from dsim import progdrv
    st = {"steps": 0, "edges": 0, "faults": {}, "probes": {}}
    pr = progdrv.ProgRun(case, st)
    pr.execute()
    first = pr.dig.hexdigest()
    pr.dig = Digest()
    pr.execute(rerun=True)
    stats["faults"]["restart"] += 1
    stats["steps"] += st["steps"]
    stats["decisions"] += st.get("decisions", 0)
    stats["probes"]["prog_restart"] = stats["probes"].get("prog_restart", 0) + 1
    if pr.dig.hexdigest() != first:
        raise Violation("trace_differs_after_reset", -1, {"kind": "generated program"})
    dig.add(first)
    return True


def run_case(case):
    res = Result()
    dig = Digest()
    stats = {"steps": 0, "edges": 0, "sim_fs": 0, "decisions": 0, "faults": {"hashseed": 0, "restart": 0, "clockjump": 0},
             "probes": {"implicit_domains_ge2": 0, "reset_after_timeline_fired": 0, "reset_inside_critical": 0,
                        "double_reset": 0, "name_clash": 0, "anonymous_submodule": 0}}
    nontrivial = [False]

    def go():
        fn = {"hashseed": run_hashseed, "restart": run_restart, "plan": run_plan, "prog_restart": run_prog_restart}[case["kind"]]
        nontrivial[0] = bool(fn(case, res, dig, stats))

    run_guarded(res, go)
    return finish(res, dig, stats, nontrivial[0])


def signature(case, violation):
    sig = {"oracle": violation["oracle"], "kind": case["kind"]}
    if violation["oracle"] == "exception":
        sig["exc"] = violation["detail"].get("type")
        sig["where"] = violation["detail"].get("where")
    if violation["oracle"] == "second_conversion_of_same_object_fails":
        sig["exc"] = violation["detail"].get("type")
        sig["own_clock_domain_under_renamer"] = violation["detail"].get("own_clock_domain_under_renamer")
    return sig


def simplify(case):
    if case["kind"] == "prog_restart":
        from dsim import progdrv
        yield from progdrv.simplify_prog(case)
        return
    if case["kind"] == "restart":
        if case["bg"]["enabled"]:
            yield dict(case, bg=dict(case["bg"], enabled=False))
        if case["proc"]["enabled"]:
            yield dict(case, proc=dict(case["proc"], enabled=False))
        for i in range(len(case["tbs"])):
            if len(case["tbs"]) > 1:
                yield dict(case, tbs=case["tbs"][:i] + case["tbs"][i + 1:])
        for i, ops in enumerate(case["tbs"]):
            for j in range(len(ops)):
                tbs = list(case["tbs"])
                tbs[i] = ops[:j] + ops[j + 1:]
                yield dict(case, tbs=tbs)
        for i, st in enumerate(case["steps"]):
            if st["reset_after"] > 0:
                steps = list(case["steps"])
                steps[i] = {"reset_after": st["reset_after"] // 2}
                yield dict(case, steps=steps)
    if case["kind"] == "hashseed":
        for i, r in enumerate(case["recipes"]):
            if "progen" in r:
                continue
            def prune(spec):
                for j in range(len(spec["subs"])):
                    yield dict(spec, subs=spec["subs"][:j] + spec["subs"][j + 1:])
                for key in ("fsm", "mem", "lib"):
                    if spec[key]:
                        yield dict(spec, **{key: None})
                for j in range(len(spec["stmts"])):
                    yield dict(spec, stmts=spec["stmts"][:j] + spec["stmts"][j + 1:])
                for j, s in enumerate(spec["subs"]):
                    for sm in prune(s["m"]):
                        subs = list(spec["subs"])
                        subs[j] = dict(s, m=sm)
                        yield dict(spec, subs=subs)
            for top in prune(r["top"]):
                recipes = list(case["recipes"])
                recipes[i] = dict(r, top=top)
                yield dict(case, recipes=recipes)
