"""C02  Assignments and control flow: last active assignment wins, per bit."""
from dsim.rng import stream
from dsim.simdrv import Violation
from dsim.runner import Result, finish, run_guarded
from dsim import progen, progdrv

ID = "C02"
TITLE = "Assignments and control flow: last active assignment wins, per bit"
RULE = ("case = (generated program: 1..3 modules, comb + 1..2 sync domains (either edge, sync/async reset, reset-less), "
        "signals of width 0..12 (signed/unsigned, init, reset-less) with bits split between (module, domain) drivers, "
        "any nesting (<= 3) of If/Elif/Else, Switch/Case (integer, multi-pattern, don't-care strings with spaces, unreachable and "
        "empty cases, Default, cases after Default), FSM/State/next/ongoing; targets: signal, slice, nested slice, concatenation, "
        "bit_select/word_select with in- and out-of-range offsets, array element, sign reinterpretation; right-hand sides from the "
        "exact-integer grammar of dsim/refint.py, incl. ClockSignal / ResetSignal reads; up to two modules define a domain of their "
        "own under an outer domain's name), scheduler order, structured testbench writes (ctx.set through slices, concatenations, "
        "part selects, array elements of inputs) and writes that must be refused without effect, explicit step list of input writes, clock level changes "
        "(alone / coincident, active / inactive), reset pulses landing in every FSM state). Non-trivial = some driven signal "
        "changed and a fault kind fired; distinct = distinct SHA-256 of the observation trace.")
ASSUMPTIONS = [
    "Reference: dsim/refint.py (exact Python integers; per-bit last-assignment-wins per (module, domain) driver).",
    "Programs are legal by construction (one driver per bit, acyclic combinational reads); a rejected design is a finding.",
    "A reset change never shares a step with a clock edge; inputs never change in the same step as an edge.",
    "Array indices are generated in range only; an assignment target never mentions one signal twice (aliasing).",
]
COMPONENTS = {"real": ["amaranth.hdl._dsl.Module (If/Elif/Else, Switch/Case/Default, FSM)", "amaranth.hdl._ast", "amaranth.hdl._ir / _xfrm (prepare)",
                       "amaranth.sim._pyrtl (_StatementCompiler, _LHSValueCompiler, _RHSValueCompiler)", "amaranth.sim.pysim"],
              "stub": ["PermSet scheduler seam", "clock/reset driver", "reference interpreter (dsim/refint.py)"]}
EXPECTED_PROBES = ("sched", "coincide", "inactive", "srst", "arst", "if", "switch", "fsm", "part", "array", "cat", "as_signed",
                   "matches", "dontcare_pattern", "submodules", "zero_width", "obs_changes", "structured_write", "refused_write",
                   "shadowing_domain", "part_select_on_partly_owned_signal")
OPTS = {"max_domains": 2, "max_modules": 3, "wrappers": False, "prints": False, "fsm": True, "shadows": True, "clock_reads": True, "partial_part": True}


def gen_case(seed, tier):
    cfg = stream(seed, "cfg")
    wl = stream(seed, "workload")
    fl = stream(seed, "faults")
    sc = stream(seed, "sched")
    prog = progen.gen_program(cfg, OPTS)
    n = cfg.randint(10, 70) if tier == "quick" else cfg.randint(10, 200)
    steps = progdrv.gen_steps(prog, wl, fl, n, p_reset=fl.choice([0.0, 0.05, 0.15]), p_coincide=fl.choice([0.0, 0.3, 0.7]), p_mixed=fl.choice([0.0, 0.1, 0.25]), setx=fl.choice([0.0, 0.2, 0.4]))
    return {"prog": prog, "sched": {"mode": sc.choice(["seeded", "seeded", "reverse", "insertion"]), "seed": sc.randrange(1 << 32)},
            "steps": steps}


def run_case(case):
    res = Result()
    stats = {"steps": 0, "edges": 0, "faults": {"sched": 0, "coincide": 0, "inactive": 0, "srst": 0, "arst": 0, "glitch-in": 0},
             "probes": dict(progdrv.count_features(case["prog"]))}
    holder = {}

    def negative_constant_offsets():
        """A part select whose *constant* offset is negative addresses bits below bit 0 - outside the target: either the
        statement is refused when it is built (the documented TypeError for a signed offset), or no bit of the target changes.
        (Variable offsets are unsigned by construction; the generated programs cover those.)"""
        from amaranth.hdl import Module, Signal, Const
        from amaranth.sim import Simulator
        n = len(case["steps"])
        w = 2 + n % 7
        off = -(1 + n % (w + 2))
        width = 1 + n % 3
        for offset in (off, Const(off, 5)):
            for sel in ("bit_select", "word_select"):
                a = Signal(w, init=(0x5a5a >> (n % 5)) & ((1 << w) - 1), name="a")
                m = Module()
                try:
                    m.d.comb += getattr(a, sel)(offset, width).eq(-1)
                except (TypeError, ValueError, IndexError):
                    stats["probes"]["negative_constant_offset_refused"] = 1
                    continue
                got = []

                async def tb(ctx):
                    got.append(ctx.get(a))
                sim = Simulator(m)
                sim.add_testbench(tb)
                sim.run()
                if got != [a.init]:
                    raise Violation("negative_constant_offset_writes_bits", -1, {"select": sel, "offset": off, "width": width,
                                                                                 "target_width": w, "got": got[0], "init": a.init})

    def go():
        if len(case["steps"]) % 8 == 0:
            negative_constant_offsets()
        holder["pr"] = progdrv.ProgRun(case, stats)
        holder["pr"].execute()

    run_guarded(res, go)
    if stats.get("decisions"):
        stats["faults"]["sched"] = 1
    from dsim.rng import Digest
    dig = holder["pr"].dig if "pr" in holder else Digest()
    nontrivial = stats["probes"].get("obs_changes", 0) > 0 and any(stats["faults"].values())
    return finish(res, dig, stats, nontrivial)


def signature(case, violation):
    sig = {"oracle": violation["oracle"]}
    if violation["oracle"] == "exception":
        sig["exc"] = violation["detail"].get("type")
        sig["where"] = violation["detail"].get("where")
    sig["async"] = any(d["async_reset"] for d in case["prog"]["domains"])
    sig["part_select_on_partly_owned_signal"] = progdrv.partial_part_targets(case["prog"]) > 0
    return sig


def simplify(case):
    yield from progdrv.simplify_prog(case)
