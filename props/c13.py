"""C13  Asynchronous FIFOs are safe under every interleaving of their clocks."""
from collections import deque

from dsim.rng import stream, Digest
from dsim.simdrv import ManualRun, Violation, DomainSpec
from dsim.runner import Result, finish, run_guarded

ID = "C13"
TITLE = "Asynchronous FIFOs are safe under every interleaving of their clocks"
RULE = ("case = (class in {AsyncFIFO, AsyncFIFOBuffered}, width 0..8, requested depth 0..17 (+exact_depth), write-clock edge, "
        "write domain reset-less or not, scheduler order, explicit step list over {input writes, level changes of the write "
        "clock, the read clock, or both in the same instant}) generated from clock profiles (alternating, 1:N / N:1 ratios, "
        "random walk, stalls longer than synchroniser+FIFO depth, coincident edges, bursts) and strobe profiles "
        "(overrun / underrun included), with long write-domain reset episodes (crash of the writer side) at arbitrary instants in a "
        "seeded subset of the runs; a fair drain tail is appended by the harness. Non-trivial = at least one entry read "
        "and at least one fault kind fired; distinct = distinct SHA-256 of the per-step observation trace.")
ASSUMPTIONS = [
    "The Python simulator is the execution model: zero-delay, no metastability or bit skew (Gray coding is not observable).",
    "Inputs change only between clock edges.",
    "Reset of the reader side (arbitrary instants and lengths, also from power-up on): the queue is not affected at all "
    "(lib.fifo: 'When the read domain is reset, data remains in the FIFO').",
    "Crash of the writer side (a seeded subset of runs, resettable write domains only): the write domain's reset is asserted at "
    "an arbitrary instant and held over a write-clock edge, then at least 4 read-clock edges, then at least 4 write-clock edges "
    "(the documentation does not say how long a reset must last; a CDC reset shorter than a few cycles of both clocks is left "
    "unjudged). From the instant it rises "
    "the queue is empty (lib.fifo: 'When the write domain reset is asserted, the FIFO becomes empty'); the one entry "
    "AsyncFIFOBuffered may hold in its (read-domain) output register stays visible at most until the second read-clock edge "
    "under reset; nothing is accepted at a write edge while it is asserted; `r_rst` must have been seen asserted before the "
    "reset is released. The "
    "level outputs must stay within 0..depth throughout. A reset released sooner than "
    "that (possible only in a minimised replay) ends the judged part of the run.",
    "Liveness bound used: after writes stop, 8 + 4*depth full cycles of each clock, alternating, reader draining.",
]
COMPONENTS = {"real": ["amaranth.lib.fifo.AsyncFIFO", "amaranth.lib.fifo.AsyncFIFOBuffered", "amaranth.lib.cdc.FFSynchronizer",
                       "amaranth.lib.cdc.AsyncFFSynchronizer", "amaranth.lib.memory.Memory", "amaranth.hdl elaboration",
                       "amaranth.sim"],
              "stub": ["PermSet scheduler seam", "clock driver (bus wrapper)", "global deque monitor"]}
EXPECTED_PROBES = ("coincide", "stall", "ratio", "overrun", "underrun", "full", "wrap", "elaborated", "read_reset", "read_reset_while_holding", "reset", "reset_while_holding",
                   "reset_with_buffered_head")


def _toggle_steps(rng, levels, which):
    ch = {}
    for w in which:
        levels[w] ^= 1
        ch[w] = levels[w]
    return {"k": "clk", "l": ch}


def gen_case(seed, tier):
    cfg = stream(seed, "cfg")
    wl = stream(seed, "workload")
    fl = stream(seed, "faults")
    sc = stream(seed, "sched")
    cls = cfg.choice(["AsyncFIFO", "AsyncFIFOBuffered"])
    depth = cfg.choice([0, 1, 2, 3, 4, 5, 8, 9, 16, 17]) if cfg.random() < 0.6 else cfg.choice([1, 2, 3, 4, 5])
    exact = False
    if cfg.random() < 0.25:
        ok = [0, 1, 2, 4, 8, 16] if cls == "AsyncFIFO" else [0, 2, 3, 5, 9, 17]
        depth = cfg.choice(ok)
        exact = True
    if tier == "thorough" and cfg.random() < 0.2:
        depth = cfg.choice([31, 32, 33, 64])
        exact = False
    config = {"cls": cls, "width": cfg.choice([0, 1, 2, 3, 4, 8] + ([16, 32] if tier == "thorough" else [])), "depth": depth,
              "exact_depth": exact,
              "w_edge": cfg.choice(["pos", "pos", "neg"]), "w_reset_less": cfg.random() < 0.3}
    nsteps = cfg.randint(40, 400) if tier == "quick" else cfg.randint(40, 1800)
    kinds = ["alt", "ratio_w", "ratio_r", "walk", "stall_w", "stall_r", "coincide", "mixed"]
    enabled = [k for k in kinds if fl.random() < 0.6] or ["walk"]
    levels = {"write": 0, "read": 0}
    steps = []
    counter = wl.randrange(256)
    mask = (1 << config["width"]) - 1
    eff_depth = max(1, depth)
    pw, pr = wl.choice([(0.5, 0.5), (0.9, 0.2), (0.2, 0.9), (1.0, 1.0), (0.7, 0.7), (1.0, 0.0), (0.0, 1.0)])
    p_reset = fl.choice([0, 0, 0.1, 0.3]) if not config["w_reset_less"] else 0
    p_rreset = fl.choice([0, 0, 0.1, 0.3])
    if fl.random() < 0.1:
        steps.append({"k": "rrst", "l": 1})       # the reader is held in reset from power-up on
    while len(steps) < nsteps:
        if p_reset and steps and fl.random() < p_reset:
            # crash of the writer side: the write domain's reset, asserted at an arbitrary instant, held while both clocks
            # keep running (long enough for both sides to settle: a write edge, then >= 4 read edges, then >= 4 write edges), released
            steps.append({"k": "rst", "l": 1})
            for _ in range(fl.randint(0, 16)):
                if wl.random() < 0.4:
                    counter += 1
                    steps.append({"k": "set", "v": {"w_en": int(wl.random() < pw), "w_data": counter & mask,
                                                   "r_en": int(wl.random() < pr)}})
                r = wl.random()
                steps.append(_toggle_steps(wl, levels, ["write", "read"] if r < 0.3 else (["write"] if r < 0.65 else ["read"])))
            for name, cnt in (("write", 2), ("read", 8 + fl.choice([0, 0, 1, 3])), ("write", 8 + fl.choice([0, 0, 1]))):
                for _ in range(cnt):
                    steps.append(_toggle_steps(wl, levels, [name]))
            for _ in range(fl.choice([0, 0, 2, 5])):
                steps.append(_toggle_steps(wl, levels, [wl.choice(["write", "read"])]))
            steps.append({"k": "rst", "l": 0})
        if p_rreset and steps and fl.random() < p_rreset:
            # the reader is reset (or still held in reset at power-up) while the writer keeps going: 'When the read domain is
            # reset, data remains in the FIFO'
            steps.append({"k": "rrst", "l": 1})
            for _ in range(fl.randint(1, 12)):
                if wl.random() < 0.4:
                    counter += 1
                    steps.append({"k": "set", "v": {"w_en": int(wl.random() < pw), "w_data": counter & mask,
                                                   "r_en": int(wl.random() < pr * 0.5)}})
                r = wl.random()
                steps.append(_toggle_steps(wl, levels, ["write", "read"] if r < 0.2 else (["write"] if r < 0.5 else ["read"])))
            steps.append({"k": "rrst", "l": 0})
        prof = fl.choice(enabled)
        length = wl.randint(4, 40)
        if wl.random() < 0.25:
            pw, pr = wl.choice([(0.5, 0.5), (0.9, 0.2), (0.2, 0.9), (1.0, 1.0), (0.7, 0.7), (1.0, 0.0), (0.0, 1.0)])
        n_ratio = fl.choice([2, 3, 5, 10, 25, 50])
        if prof in ("stall_w", "stall_r"):
            length = 2 * (eff_depth * 2 + 8) + wl.randint(0, 20)
        for j in range(length):
            if wl.random() < 0.5:
                counter += 1
                steps.append({"k": "set", "v": {"w_en": int(wl.random() < pw), "w_data": counter & mask,
                                               "r_en": int(wl.random() < pr)}})
            if prof == "alt":
                which = ["write"] if j % 2 == 0 else ["read"]
            elif prof == "ratio_w":
                which = ["read"] if j % (n_ratio + 1) == n_ratio else ["write"]
            elif prof == "ratio_r":
                which = ["write"] if j % (n_ratio + 1) == n_ratio else ["read"]
            elif prof == "walk":
                which = [wl.choice(["write", "read"])]
            elif prof == "stall_w":
                which = ["read"]
            elif prof == "stall_r":
                which = ["write"]
            elif prof == "coincide":
                which = ["write", "read"]
            else:
                r = wl.random()
                which = ["write", "read"] if r < 0.34 else (["write"] if r < 0.67 else ["read"])
            steps.append(_toggle_steps(wl, levels, which))
    return {"config": config, "sched": {"mode": sc.choice(["seeded", "seeded", "reverse", "insertion"]),
                                        "seed": sc.randrange(1 << 32)}, "steps": steps, "reuse": fl.random() < 0.15}


class StopJudging(Exception):
    pass


def build(config):
    from amaranth.lib import fifo
    cls = getattr(fifo, config["cls"])
    return cls(width=config["width"], depth=config["depth"], exact_depth=config["exact_depth"])


def run_case(case):
    config = case["config"]
    w_active = 1 if config["w_edge"] == "pos" else 0
    dut = build(config)
    depth = dut.depth
    res = Result()
    dig = Digest()
    stats = {"steps": 0, "edges": 0,
             "faults": {"coincide": 0, "stall": 0, "ratio": 0, "overrun": 0, "underrun": 0, "glitch-in": 0},
             "probes": {"full": 0, "wrap": 0, "reads": 0, "writes": 0, "elaborated": 0, "coincident_rw": 0,
                        "drained_in_tail": 0}}
    run = ManualRun(dut, [DomainSpec("write", edge=config["w_edge"], reset_less=config["w_reset_less"]),
                          DomainSpec("read")],
                    sched_mode=case["sched"]["mode"], sched_seed=case["sched"]["seed"])

    def body(drv):
        stats["probes"]["elaborated"] += 1
        dq = deque()
        R = {"rst": 0, "window": False, "reads_since": 0, "post_r": 0, "post_w": 0, "doomed": 0, "r_rst_seen": False, "rrst": 0, "rrst_during_episode": False}
        buffered = config["cls"] == "AsyncFIFOBuffered"
        inp = {"w_en": 0, "w_data": 0, "r_en": 0}
        sigs = {"w_en": dut.w_en, "w_data": dut.w_data, "r_en": dut.r_en}
        lv = {"write": 0, "read": 0}
        accepted = 0
        run_same = [None, 0]    # (which single clock toggled, how many times in a row)
        sets_since_edge = 0

        def observe():
            return (drv.get(dut.w_rdy), drv.get(dut.r_rdy), drv.get(dut.r_data), drv.get(dut.r_level),
                    drv.get(dut.w_level))

        def invariants(step, obs):
            w_rdy, r_rdy, r_data, r_level, w_level = obs
            held = len(dq)
            if r_rdy:
                if not dq:
                    raise Violation("r_rdy_when_empty", step, {"r_data": r_data})
                if r_data != dq[0]:
                    raise Violation("r_data_not_oldest", step, {"r_data": r_data, "expected": dq[0], "held": held})
            if w_rdy and held >= depth:
                raise Violation("w_rdy_when_full", step, {"held": held, "depth": depth})
            if not (0 <= r_level <= depth and 0 <= w_level <= depth):
                raise Violation("level_out_of_range", step, {"r_level": r_level, "w_level": w_level, "depth": depth})

        def do_step(i, st, obs):
            nonlocal accepted, sets_since_edge
            stats["steps"] += 1
            if st["k"] == "rrst":
                # read-domain reset: no effect on the queue
                if st["l"] != R["rrst"]:
                    R["rrst"] = st["l"]
                    if st["l"] and R["rst"]:
                        R["rrst_during_episode"] = True
                    if st["l"]:
                        stats["faults"]["read_reset"] = stats["faults"].get("read_reset", 0) + 1
                        if dq:
                            stats["probes"]["read_reset_while_holding"] = stats["probes"].get("read_reset_while_holding", 0) + 1
                    drv.drive({"read.rst": st["l"]})
            elif st["k"] == "rst":
                if config["w_reset_less"] or st["l"] == R["rst"]:
                    pass
                elif st["l"]:
                    R["rst"], R["window"], R["reads_since"] = 1, True, 0
                    stats["faults"]["reset"] = stats["faults"].get("reset", 0) + 1
                    if dq:
                        stats["probes"]["reset_while_holding"] = stats["probes"].get("reset_while_holding", 0) + 1
                    # AsyncFIFOBuffered's output register belongs to the read domain: the entry it shows can only go away at
                    # a read-clock edge, so it may stay visible (and be read) until the first read edge under reset
                    head = dq[0] if (dq and buffered and obs[1]) else None
                    dq.clear()
                    R["doomed"] = 1 if head is not None else 0
                    R["r_rst_seen"] = False
                    R["rrst_during_episode"] = bool(R["rrst"])
                    if head is not None:
                        dq.append(head)
                        stats["probes"]["reset_with_buffered_head"] = stats["probes"].get("reset_with_buffered_head", 0) + 1
                    drv.drive({"write.rst": 1})
                else:
                    if R["reads_since"] < 9:
                        stats["probes"]["short_reset_unjudged"] = stats["probes"].get("short_reset_unjudged", 0) + 1
                        raise StopJudging()
                    if R["doomed"]:
                        stats["probes"]["both_domains_in_reset_unjudged"] = stats["probes"].get("both_domains_in_reset_unjudged", 0) + 1
                        raise StopJudging()      # both domains were in reset all along: the output register could not be cleared
                    # (a queue of depth 0 has no state to reset and no reset logic; `r_rst` is a read-domain register, so it
                    # cannot be shown while the read domain itself is held in reset)
                    if not R["r_rst_seen"] and depth > 0 and not R["rrst_during_episode"]:
                        raise Violation("r_rst_not_asserted", i, {"note": "r_rst must be asserted for at least one read-domain "
                                                                          "cycle after the FIFO has been reset by the write domain"})
                    R["rst"], R["post_r"], R["post_w"] = 0, 0, 0
                    drv.drive({"write.rst": 0})
            elif st["k"] == "set":
                for name, val in st["v"].items():
                    if inp[name] != val:
                        inp[name] = val
                        drv.set(sigs[name], val)
                sets_since_edge += 1
                if sets_since_edge == 2:
                    stats["faults"]["glitch-in"] += 1
            else:
                w_edge = r_edge = False
                changes = {}
                for name, lvl in st["l"].items():
                    if lv[name] != lvl:
                        stats["edges"] += 1
                        lv[name] = lvl
                        changes[name + ".clk"] = lvl
                        if name == "write" and lvl == w_active:
                            w_edge = True
                        if name == "read" and lvl == 1:
                            r_edge = True
                if len(changes) == 2:
                    stats["faults"]["coincide"] += 1
                    run_same[0], run_same[1] = None, 0
                elif len(changes) == 1:
                    nm = next(iter(changes))
                    if run_same[0] == nm:
                        run_same[1] += 1
                        if run_same[1] == 4:
                            stats["faults"]["ratio"] += 1
                        if run_same[1] == 2 * (2 * max(1, depth) + 6):
                            stats["faults"]["stall"] += 1
                    else:
                        run_same[0], run_same[1] = nm, 1
                w_rdy, r_rdy = obs[0], obs[1]
                held = len(dq)
                if changes:
                    drv.drive(changes)
                if w_edge or r_edge:
                    sets_since_edge = 0
                if w_edge and r_edge and inp["w_en"] and w_rdy and inp["r_en"] and r_rdy:
                    stats["probes"]["coincident_rw"] += 1
                if R["rst"]:
                    # hold requirement: phase 0 -> (write edge) -> 1..4 -> (4 read edges) -> 5..8 -> (4 write edges) -> 9 = held long enough
                    ph = R["reads_since"]
                    if ph == 0:
                        ph = 1 if w_edge else 0
                    else:
                        if 1 <= ph <= 4 and r_edge:
                            ph += 1
                        if 5 <= ph <= 8 and w_edge:
                            ph += 1
                    R["reads_since"] = ph
                elif R["window"]:
                    R["post_r"] += int(r_edge)
                    R["post_w"] += int(w_edge)
                    if R["post_r"] >= 4 and R["post_w"] >= 4:
                        R["window"] = False
                if r_edge:
                    if inp["r_en"] and r_rdy:
                        if not dq:
                            raise Violation("read_when_empty", i, {})
                        dq.popleft()
                        stats["probes"]["reads"] += 1
                    elif inp["r_en"]:
                        stats["faults"]["underrun"] += 1
                    if R["doomed"] and not R["rrst"]:
                        # the reset reaches the output stage through a read-domain register: by the second read edge under reset
                        # (not counting edges at which the read domain itself is held in reset, where that register cannot act)
                        # whatever the output register held is gone, read or not
                        R["doomed"] += 1
                        if R["doomed"] > 2:
                            if dq:
                                stats["probes"]["buffered_head_dropped_by_reset"] = stats["probes"].get("buffered_head_dropped_by_reset", 0) + 1
                            dq.clear()
                            R["doomed"] = 0
                if w_edge and R["rst"]:
                    pass        # nothing is accepted while the write domain is held in reset
                elif w_edge:
                    if inp["w_en"] and w_rdy:
                        if held >= depth:
                            raise Violation("accept_when_full", i, {"held": held, "depth": depth})
                        dq.append(inp["w_data"])
                        accepted += 1
                        stats["probes"]["writes"] += 1
                        if accepted == depth + 1:
                            stats["probes"]["wrap"] += 1
                        if len(dq) == depth:
                            stats["probes"]["full"] += 1
                    elif inp["w_en"]:
                        stats["faults"]["overrun"] += 1
            obs = observe()
            invariants(i, obs)
            if R["rst"] and drv.get(dut.r_rst):
                R["r_rst_seen"] = True
            dig.add((st["k"], lv["write"], lv["read"], obs, len(dq)))
            return obs

        obs = observe()
        invariants(-1, obs)
        n = len(case["steps"])
        try:
            for i, st in enumerate(case["steps"]):
                drv.begin_step(i)
                obs = do_step(i, st, obs)
        except StopJudging:
            return
        if R["rst"]:
            return      # (only in a minimised replay: the reset is never released)
        # fair tail: writes stop, reader drains, clocks alternate
        if depth > 0:
            tail = [{"k": "rrst", "l": 0}, {"k": "set", "v": {"w_en": 0, "r_en": 1}}]
            for _ in range(8 + 4 * depth):
                for name in ("write", "read"):
                    tail.append({"k": "clk", "l": {name: 1 - lv[name]}})
                    tail.append({"k": "clk", "l": {name: lv[name]}})
            before = len(dq)
            for j, st in enumerate(tail):
                drv.begin_step(n + j)
                obs = do_step(n + j, st, obs)
            if dq:
                raise Violation("liveness_not_drained", n + len(tail) - 1,
                                {"left": len(dq), "held_when_writes_stopped": before, "depth": depth,
                                 "tail_cycles_each_clock": 8 + 4 * depth})
            if before:
                stats["probes"]["drained_in_tail"] += 1

    run_guarded(res, lambda: run.run(body))
    if res.violation is None and case.get("reuse") and True:
        # second use of the very same design object: elaborated and simulated again, it must behave identically
        first = dig.restart()
        run2 = ManualRun(dut, [DomainSpec("write", edge=config["w_edge"], reset_less=config["w_reset_less"]), DomainSpec("read")], sched_mode=case["sched"]["mode"], sched_seed=case["sched"]["seed"])
        run_guarded(res, lambda: run2.run(body))
        stats["faults"]["reuse"] = stats["faults"].get("reuse", 0) + 1
        if res.violation is None and dig.hexdigest() != first:
            res.violation = {"oracle": "second_use_of_same_object_differs", "step": -1, "detail": {}}
    stats["decisions"] = run.decisions
    dig.add_events(run.events)
    nontrivial = stats["probes"]["reads"] > 0 and any(stats["faults"].values())
    return finish(res, dig, stats, nontrivial)


def signature(case, violation):
    c = case["config"]
    sig = {"oracle": violation["oracle"], "cls": c["cls"], "depth": c["depth"]}
    if violation["oracle"] == "exception":
        sig["exc"] = violation["detail"].get("type")
        sig["where"] = violation["detail"].get("where")
    return sig


def simplify(case):
    c = case["config"]
    if c["w_edge"] != "pos":
        steps = []
        for s in case["steps"]:
            if s["k"] == "clk" and "write" in s["l"]:
                s = {"k": "clk", "l": dict(s["l"], write=1 - s["l"]["write"])}
            steps.append(s)
        yield dict(case, config=dict(c, w_edge="pos"), steps=steps)
    if c["w_reset_less"]:
        yield dict(case, config=dict(c, w_reset_less=False))
    if c["exact_depth"]:
        yield dict(case, config=dict(c, exact_depth=False))
    for w in (0, 1, 2):
        if w < c["width"]:
            m = (1 << w) - 1
            steps = []
            for s in case["steps"]:
                if s["k"] == "set" and "w_data" in s["v"]:
                    s = {"k": "set", "v": dict(s["v"], w_data=s["v"]["w_data"] & m)}
                steps.append(s)
            yield dict(case, config=dict(c, width=w), steps=steps)
    for d in (1, 2, 3, 4, 5, 8, 9):
        if d < c["depth"]:
            yield dict(case, config=dict(c, depth=d, exact_depth=False))
    # split coincident edges
    for i, s in enumerate(case["steps"]):
        if s["k"] == "clk" and len(s["l"]) == 2:
            steps = list(case["steps"])
            steps[i:i + 1] = [{"k": "clk", "l": {"write": s["l"]["write"]}}, {"k": "clk", "l": {"read": s["l"]["read"]}}]
            yield dict(case, steps=steps)
            break
