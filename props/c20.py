"""C20  Print, Assert and Format match Python formatting at the right instants."""
from dsim.rng import stream, Digest
from dsim.simdrv import Violation
from dsim.runner import Result, finish, run_guarded
from dsim import progen, progdrv

ID = "C20"
TITLE = "Print, Assert and Format match Python formatting at the right instants"
RULE = ("case = (generated program with Print / Assert / Assume statements in 1..2 sync domains under If/Switch/FSM control "
        "flow, occasionally inside EnableInserter; format specs drawn from the accepted grammar [[fill]align][sign][#][0][width][_]"
        "[type b o d x X c s | none] x signed/unsigned shapes x values; scheduler order; explicit step list of input writes, active "
        "and inactive clock edges, coincident edges of two printing domains, sync/async reset pulses with and without a clock "
        "edge; in a fifth of the cases also a side episode: one sync Print of Format.Enum over a 1..3-bit input with variant names drawn "
        "from a pool that includes non-ASCII strings, given as a dict or an enum class, stepped through writes and both clock edges"
        "). Non-trivial = at least one message was printed or an assertion fired, and a fault kind fired; distinct = distinct "
        "SHA-256 of the per-step output trace.")
ASSUMPTIONS = [
    "Expected text = Python str.format of the same spec on the reference's pre-edge value in its own shape; per step the captured "
    "output must be a concatenation, in some order of the (module, domain) processes, of each process's messages in program order.",
    "`c` values are 7-bit code points; `s` values are ASCII bytes without NUL except NUL padding above the text.",
    "Format.Enum prints the name of the variant selected by the pre-edge value exactly as Python prints that str (names are data and "
    "may lie outside ASCII), and `[unknown]` for a value without a variant.",
    "A small fixed list of specifications outside the grammar must be rejected when the Format is built.",
    "If several assertions fail at the same edge, any one that is first in its own (module, domain) process may be reported.",
    "Print statements also take several arguments (a Format, plain strings incl. the empty one, bare values) with sep / end as "
    "Python's print(); widths may come from nested replacement fields with automatic numbering.",
    "Continuing without reset after a caught AssertionError (half of the runs; input writes only, no clock edge): the interrupted "
    "delta cycle may still deliver what *other* processes owed for that edge (their messages, their failing assertions, each "
    "once); the process whose assertion fired must stay silent.",
]
COMPONENTS = {"real": ["amaranth.hdl._ast.Format / Print / Assert / Assume (validation)", "amaranth.sim._pyrtl.emit_format / on_Print / "
                       "on_Property", "amaranth.sim._pyeval.value_to_string", "amaranth.hdl._dsl control flow", "amaranth.sim.pysim"],
              "stub": ["PermSet scheduler seam", "clock/reset driver", "reference interpreter + str.format"]}
EXPECTED_PROBES = ("sched", "coincide", "inactive", "srst", "arst", "restart", "restart_after_assertion", "printed", "assert_fired",
                   "silent_steps", "two_processes_printed", "continued_after_assertion",
                   "spec_c", "spec_s", "signed_value_printed", "invalid_specs_rejected", "enum_printed", "enum_non_ascii_printed",
                   "enum_unknown_printed")
OPTS = {"max_domains": 2, "max_modules": 3, "wrappers": False, "prints": True, "asserts": True, "fsm": True, "max_stmts": 5, "depth": 1}
ENUM_NAMES = ["A", "idle", "BUSY_1", "x y", "\u03a9", "na\u00efve", "\u65e5\u672c", "\u00b5s", "\u00e9", "\u00df", "Z\u00fcrich", "\U0001f600k"]
INVALID_SPECS = ["^5", "<^3", ",", "5,d", "n", ".3", "5.2d", "f", "e", "%", "q", "+s", "#c", "05s", "=4c", "_s", "00d", "+-d"]


def gen_case(seed, tier):
    cfg = stream(seed, "cfg")
    wl = stream(seed, "workload")
    fl = stream(seed, "faults")
    sc = stream(seed, "sched")
    prog = progen.gen_program(cfg, OPTS)
    if cfg.random() < 0.15:
        # an enable inserter around a printing module
        def mods(m):
            yield m
            for s in m["subs"]:
                yield from mods(s)
        ms = list(mods(prog["top"]))
        m = cfg.choice(ms)
        # (the control may be one bit, two bits - enabled when non-zero - or of shape signed(1) - enabled when -1)
        kind_c = cfg.choice(["u1", "u1", "u2", "s1"])
        prog["signals"].append({"name": "ctl", "width": 2 if kind_c == "u2" else 1, "signed": kind_c == "s1", "init": 0,
                                "reset_less": False, "role": "ctl"})
        m["wrap"].append(["enable", cfg.choice(prog["domains"])["name"], len(prog["signals"]) - 1])
    n = cfg.randint(8, 50) if tier == "quick" else cfg.randint(8, 160)
    steps = progdrv.gen_steps(prog, wl, fl, n, p_reset=fl.choice([0.0, 0.1, 0.2]), p_coincide=fl.choice([0.0, 0.4, 0.8]))
    case = {"prog": prog, "sched": {"mode": sc.choice(["seeded", "seeded", "reverse", "insertion"]), "seed": sc.randrange(1 << 32)},
            "steps": steps, "restart": fl.random() < 0.5, "continue_after_assert": fl.random() < 0.5}
    en = stream(seed, "enum")
    if en.random() < 0.2:
        # a side episode: an enumeration printed through Format.Enum (names are data: any str, also outside ASCII)
        w = en.randint(1, 3)
        vals = en.sample(range(1 << w), en.randint(1, min(4, 1 << w)))
        case["enum"] = {"width": w, "edge": en.choice(["pos", "neg"]), "as_class": en.random() < 0.3,
                        "variants": [[v, en.choice(ENUM_NAMES) + (str(k) if en.random() < 0.3 else "")] for k, v in enumerate(vals)],
                        "steps": [["set", en.randrange(1 << w)] if en.random() < 0.4 else ["clk"] for _ in range(en.randint(4, 24))]}
    return case


def _concat_match(text, blocks):
    """Is `text` the concatenation of all `blocks` in some order?"""
    if not blocks:
        return text == ""
    for i, b in enumerate(blocks):
        if b and text.startswith(b):
            if _concat_match(text[len(b):], blocks[:i] + blocks[i + 1:]):
                return True
        elif not b:
            return _concat_match(text, blocks[:i] + blocks[i + 1:])
    return False


class Stop(Exception):
    pass


def enum_episode(case, stats, P, dig):
    """Format.Enum in a sync Print: at every active edge exactly the name of the variant that the (pre-edge) value selects, or
    "[unknown]", as Python's str.format prints that str; nothing at any other instant."""
    import enum as pyenum
    from amaranth.hdl import Module, Signal, Print, Format
    from dsim.simdrv import ManualRun, DomainSpec
    spec = case["enum"]
    names = {}
    for v, n in spec["variants"]:
        names.setdefault(v, n)
    if spec["as_class"] and len(set(names.values())) == len(names):
        variants = pyenum.Enum("Variants", {n: v for v, n in names.items()})
    else:
        variants = dict(names)
    m = Module()
    u = Signal(spec["width"], name="u")
    m.d.sync += Print(Format("<{}>", Format.Enum(u, variants)))
    run = ManualRun(m, [DomainSpec("sync", edge=spec["edge"])], sched_mode=case["sched"]["mode"], sched_seed=case["sched"]["seed"],
                    capture_stdout=True)

    def body(drv):
        cur = 0
        out = drv.take_stdout()
        if out:
            raise Violation("printed_without_active_edge", -1, {"text": out[:200], "episode": "enum"})
        for i, st in enumerate(spec["steps"]):
            drv.begin_step(i)
            if st[0] == "set":
                cur = st[1]
                drv.set(u, cur)
                expected = ""
            else:
                lvl = 1 - drv.level("sync.clk")
                drv.drive({"sync.clk": lvl})
                active = (lvl == 1) == (spec["edge"] == "pos")
                expected = "<{}>\n".format(names.get(cur, "[unknown]")) if active else ""
                stats["edges"] += 1
                if not active:
                    stats["faults"]["inactive"] += 1
            stats["steps"] += 1
            out = drv.take_stdout()
            if out != expected:
                raise Violation("print_text" if expected else "printed_without_active_edge", i,
                                {"episode": "enum", "got": out[:200], "expected": expected, "value": cur, "variants": spec["variants"]})
            if expected:
                P["enum_printed"] = P.get("enum_printed", 0) + 1
                if not expected.isascii():
                    P["enum_non_ascii_printed"] = P.get("enum_non_ascii_printed", 0) + 1
                if cur not in names:
                    P["enum_unknown_printed"] = P.get("enum_unknown_printed", 0) + 1
            dig.add(("enum", out), state=False)
    run.run(body)


def run_case(case):
    res = Result()
    stats = {"steps": 0, "edges": 0, "faults": {"sched": 0, "coincide": 0, "inactive": 0, "srst": 0, "arst": 0, "gate": 0, "glitch-in": 0},
             "probes": dict(progdrv.count_features(case["prog"]))}
    P = stats["probes"]
    for k in ("printed", "assert_fired", "silent_steps", "two_processes_printed", "spec_c", "spec_s", "signed_value_printed",
              "invalid_specs_rejected"):
        P.setdefault(k, 0)
    holder = {}

    def static_checks():
        from amaranth.hdl import Format, Signal, Array, ValueCastable, signed, unsigned
        s8 = Signal(8)

        class Plain(ValueCastable):         # a value-castable whose shape is a plain Shape
            def __init__(self, v):
                self.v = v

            def shape(self):
                return self.v.shape()

            def as_value(self):
                return self.v
        # every kind of object a specification can be applied to is validated alike: a signal, an expression, an element of an
        # Array selected by a signal, a value-castable of plain shape, one whose shape keeps the default format()
        from dsim.progen import _default_format_view
        kinds = {"signal": lambda sg: sg, "expression": lambda sg: sg + 0, "array element": lambda sg: Array([sg, sg])[Signal(1)],
                 "value-castable of plain shape": Plain, "value-castable with the default format()": _default_format_view}
        for kname, mk in kinds.items():
            for spec in INVALID_SPECS:
                try:
                    Format("{:" + spec + "}", mk(s8 if kname != "expression" else Signal(7)))
                except ValueError:
                    P["invalid_specs_rejected"] += 1
                    continue
                raise Violation("invalid_spec_accepted", -1, {"spec": spec, "applied_to": kname})
            for spec in ("c", "s"):
                try:
                    Format("{:" + spec + "}", mk(Signal(signed(8))))
                except ValueError:
                    continue
                raise Violation("invalid_spec_accepted", -1, {"spec": spec, "shape": "signed(8)", "applied_to": kname})

    def go():
        static_checks()
        pr = progdrv.ProgRun(case, stats, capture_stdout=True)
        holder["pr"] = pr
        import json
        txt = json.dumps(case["prog"])
        stopped = {}

        def hook(drv, ref, idx, st, active):
            out = drv.take_stdout()
            if idx < 0 or st is None or st["k"] != "ev" or not active:
                if out:
                    raise Violation("printed_without_active_edge", idx, {"text": out[:200]})
                P["silent_steps"] += 1
                return
            if ref.failed:
                firsts = {}
                for (mi, dom, kind, msg) in ref.failed:
                    firsts.setdefault((mi, dom), (kind, msg))
                raise Violation("assert_not_raised", idx, {"expected_any_of": [list(v) for v in firsts.values()][:4]})
            groups = {}
            for (mi, dom, text) in ref.prints:
                groups[(mi, dom)] = groups.get((mi, dom), "") + text
            blocks = list(groups.values())
            if not _concat_match(out, blocks):
                raise Violation("print_text", idx, {"got": out[:300], "expected_blocks_any_order": [b[:200] for b in blocks]})
            if out:
                P["printed"] += 1
                if len([b for b in blocks if b]) >= 2:
                    P["two_processes_printed"] += 1
            else:
                P["silent_steps"] += 1
            pr.dig.add(("out", sorted(blocks)), state=False)

        def on_exception(drv, ref, idx, st, active, rst_changes, e):
            if not isinstance(e, AssertionError):
                return False
            # the simulation stopped: compute what the reference expects at this very step
            for dom, lvl in rst_changes.items():
                ref.set_reset(dom, lvl)
            if active:
                ref.edge(active)
            msg = str(e)
            firsts = {}
            for (mi, dom, kind, m) in ref.failed:
                firsts.setdefault((mi, dom), (kind, m))
            acceptable = []
            for kind, m in firsts.values():
                head = "Assertion violated" if kind == "assert" else "Assumption violated"
                acceptable.append(head + (": " + m if m is not None else ""))
            if not acceptable:
                raise Violation("assert_raised_unexpectedly", idx, {"message": msg[:300]})
            if msg not in acceptable:
                raise Violation("assert_message", idx, {"message": msg[:300], "acceptable": [a[:300] for a in acceptable][:4]})
            P["assert_fired"] += 1
            pr.dig.add(("assert", sorted(acceptable)), state=False)     # which of several failing assertions fires first is free
            fired = [key for key, (kind, m) in firsts.items()
                     if ("Assertion violated" if kind == "assert" else "Assumption violated") + (": " + m if m is not None else "") == msg]
            if case.get("continue_after_assert") and len(fired) == 1:
                # the caller catches the AssertionError and goes on using the same simulation (no reset), with input writes only
                # (no clock edge).  The interrupted delta cycle may still owe the work of *other* processes of that edge (their
                # messages, their failing assertions - each once); the process whose assertion fired must not run again.
                pool_texts = [t for (mi, dom, t) in ref.prints if (mi, dom) != fired[0] and t]
                pool_msgs = [("Assertion violated" if kind == "assert" else "Assumption violated") + (": " + m if m is not None else "")
                             for key, (kind, m) in firsts.items() if key != fired[0]]

                def take(text):
                    """remove from the pool a sequence of owed messages that spells `text`; False if there is none"""
                    if not text:
                        return True
                    for k, t in enumerate(pool_texts):
                        if text.startswith(t):
                            rest = pool_texts[:k] + pool_texts[k + 1:]
                            saved = list(pool_texts)
                            pool_texts[:] = rest
                            if take(text[len(t):]):
                                return True
                            pool_texts[:] = saved
                    return False
                drv.take_stdout()       # (what the failing edge itself printed before it stopped is not judged)
                done = 0
                for st2 in case["steps"][idx + 1:]:
                    if done >= 6:
                        break
                    if st2["k"] != "set":
                        continue
                    si = st2["s"]
                    if si >= len(case["prog"]["signals"]) or case["prog"]["signals"][si]["role"] not in ("input", "ctl"):
                        continue
                    sg = pr.B.sigs[si]
                    v = st2["v"] & ((1 << len(sg)) - 1)
                    done += 1
                    try:
                        drv.set(sg, v - (1 << len(sg)) if (case["prog"]["signals"][si]["signed"] and len(sg) and v >> (len(sg) - 1)) else v)
                    except AssertionError as e2:
                        if str(e2) in pool_msgs:
                            pool_msgs.remove(str(e2))
                            P["owed_assertion_after_continue"] = P.get("owed_assertion_after_continue", 0) + 1
                        else:
                            raise Violation("assert_raised_without_edge", idx, {"message": str(e2)[:300], "after": "an assertion "
                                                                               "that the caller caught; no clock edge since"})
                    out2 = drv.take_stdout()
                    if out2 and not take(out2):
                        raise Violation("printed_without_active_edge", idx, {"text": out2[:200], "after": "a caught assertion",
                                                                             "owed_by_other_processes": pool_texts[:6]})
                # ... and when the domain of the stopped process has an asynchronous reset: asserting it now (no clock edge) wakes
                # that process for the reset alone - its statements must not run (again)
                fdom = fired[0][1]
                dspec = next((d_ for d_ in case["prog"]["domains"] if d_["name"] == fdom), None)
                if dspec is not None and dspec.get("async_reset") and not dspec.get("reset_less"):
                    try:
                        drv.drive({fdom + ".rst": 1})
                    except AssertionError as e2:
                        if str(e2) in pool_msgs:
                            pool_msgs.remove(str(e2))
                        else:
                            raise Violation("assert_raised_without_edge", idx, {"message": str(e2)[:300], "after": "an assertion that "
                                                                               "the caller caught, then the asynchronous reset rose; no clock edge since"})
                    out3 = drv.take_stdout()
                    if out3 and not take(out3):
                        raise Violation("printed_without_active_edge", idx, {"text": out3[:200], "after": "a caught assertion and a rise "
                                                                             "of the asynchronous reset", "owed_by_other_processes": pool_texts[:6]})
                    P["async_reset_after_caught_assertion"] = P.get("async_reset_after_caught_assertion", 0) + 1
                if done:
                    P["continued_after_assertion"] = P.get("continued_after_assertion", 0) + 1
            raise Stop()

        if '"c"' in txt or 'c"]' in txt:
            pass
        try:
            pr.execute(hook=hook, on_exception=on_exception)
        except Stop:
            stats["decisions"] = pr.run.decisions
        except AssertionError as e:
            # an Assert/Assume fired outside any harness step (e.g. while the simulation was being set up)
            raise Violation("assert_raised_unexpectedly", -1, {"message": str(e)[:300], "when": "outside a step"})
        if case.get("restart"):
            # crash / restart: Simulator.reset() on the same simulator (possibly right after an AssertionError escaped from
            # the middle of a delta cycle), then the same steps again: same text at the same steps, same stopping point
            first = pr.dig.hexdigest()
            pr.dig = Digest()
            stats["faults"]["restart"] = stats["faults"].get("restart", 0) + 1
            if P["assert_fired"]:
                P["restart_after_assertion"] = P.get("restart_after_assertion", 0) + 1
            try:
                pr.execute(hook=hook, on_exception=on_exception, rerun=True)
            except Stop:
                pass
            except AssertionError as e:
                raise Violation("assert_raised_unexpectedly", -1, {"message": str(e)[:300], "when": "after Simulator.reset()"})
            if pr.dig.hexdigest() != first:
                raise Violation("trace_differs_after_reset", -1, {})
        if case.get("enum"):
            enum_episode(case, stats, P, pr.dig)

    def count_specs(prog):
        import json
        txt = json.dumps(prog)
        P["spec_c"] += txt.count('c"]')
        P["spec_s"] += txt.count('s"]')

    count_specs(case["prog"])
    P["signed_value_printed"] += 1 if any(s["signed"] for s in case["prog"]["signals"]) and P.get("print") else 0
    run_guarded(res, go)
    if stats.get("decisions"):
        stats["faults"]["sched"] = 1
    dig = holder["pr"].dig if "pr" in holder else Digest()
    nontrivial = (P["printed"] > 0 or P["assert_fired"] > 0) and any(stats["faults"].values())
    return finish(res, dig, stats, nontrivial)


def signature(case, violation):
    sig = {"oracle": violation["oracle"]}
    if violation["oracle"] == "exception":
        sig["exc"] = violation["detail"].get("type")
        sig["where"] = violation["detail"].get("where")
    return sig


def simplify(case):
    if case.get("enum"):
        import copy
        c = copy.deepcopy(case)
        c["prog"]["top"]["stmts"] = []
        c["prog"]["top"]["subs"] = []
        c["steps"] = []
        yield c
        en = case["enum"]
        for k in range(len(en["steps"])):
            c = copy.deepcopy(case)
            del c["enum"]["steps"][k]
            yield c
        for k in range(len(en["variants"])):
            if len(en["variants"]) > 1:
                c = copy.deepcopy(case)
                del c["enum"]["variants"][k]
                yield c
        c = copy.deepcopy(case)
        del c["enum"]
        yield c
    yield from progdrv.simplify_prog(case)
