"""C12  Synchronous FIFOs refine a bounded queue for every strobe sequence."""
from collections import deque

from dsim.rng import stream, Digest
from dsim.simdrv import ManualRun, Violation, DomainSpec
from dsim.runner import Result, finish, run_guarded

ID = "C12"
TITLE = "Synchronous FIFOs refine a bounded queue for every strobe sequence"
RULE = ("case = (class in {SyncFIFO, SyncFIFOBuffered}, width 0..8, depth in {0,1,2,3,4,5,7,8,9,16,17}, clock edge, "
        "scheduler order, explicit step list of input writes and clock level changes drawn from phase profiles "
        "(balanced, writer-heavy/overrun, reader-heavy/underrun, bursts, boundary single-stepping, simultaneous r+w), with "
        "domain-reset pulses at arbitrary instants in a seeded subset of the runs). "
        "A run is non-trivial if at least one entry was written and read and at least one fault kind fired; "
        "distinct = distinct SHA-256 of the per-step observation trace.")
ASSUMPTIONS = [
    "The Python simulator is the execution model (zero-delay, two-phase).",
    "Inputs change only between clock edges (never in the same step as an edge).",
    "Crash/restart of the queue: a synchronous domain reset (asserted at arbitrary instants, held over 1..3 active edges) "
    "empties the queue at every active edge at which it is asserted (lib.fifo: all state is resettable; C03: a reset loads "
    "initial values at the active edge); nothing is accepted or delivered at such an edge.",
    "deque monitor (collections.deque) is the trusted reference.",
]
COMPONENTS = {"real": ["amaranth.lib.fifo.SyncFIFO", "amaranth.lib.fifo.SyncFIFOBuffered", "amaranth.lib.memory.Memory",
                       "amaranth.hdl elaboration", "amaranth.sim (PySimEngine, compiled RTL processes)"],
              "stub": ["PermSet scheduler seam", "clock driver (bus wrapper)", "deque monitor"]}
EXPECTED_PROBES = ("overrun", "underrun", "glitch-in", "inactive", "full", "rw_at_full", "rw_at_empty", "wrap", "reset",
                   "reset_while_holding", "reset_pulse_without_edge")

DEPTHS = [0, 1, 2, 3, 4, 5, 7, 8, 9, 16, 17]
WIDTHS = [0, 1, 2, 3, 4, 8]
PROFILES = {
    "balanced": (0.5, 0.5), "writer": (0.9, 0.1), "reader": (0.1, 0.9), "both": (1.0, 1.0),
    "idle": (0.05, 0.05), "wonly": (1.0, 0.0), "ronly": (0.0, 1.0), "mostly_both": (0.85, 0.85),
}


def gen_case(seed, tier):
    cfg = stream(seed, "cfg")
    wl = stream(seed, "workload")
    fl = stream(seed, "faults")
    sc = stream(seed, "sched")
    config = {
        "cls": cfg.choice(["SyncFIFO", "SyncFIFOBuffered"]),
        "width": cfg.choice(WIDTHS),
        "depth": cfg.choice(DEPTHS),
        "edge": cfg.choice(["pos", "pos", "neg"]),
    }
    if tier == "thorough" and cfg.random() < 0.25:
        config["depth"] = cfg.choice([31, 32, 33, 64, 65])
        config["width"] = cfg.choice([1, 8, 16, 32])
    if cfg.random() < 0.3:   # bias to small parameters, where walks saturate the state graph
        config["depth"] = cfg.choice([1, 2, 3, 4])
        config["width"] = cfg.choice([0, 1, 2])
    ncycles = cfg.randint(10, 120) if tier == "quick" else cfg.randint(10, 600)
    if cfg.random() < 0.15:
        ncycles = max(ncycles, 4 * config["depth"] + 20)
    glitch = fl.random() < 0.5
    late_set = fl.random() < 0.5      # change inputs after the inactive edge instead of before it
    extra_inactive = fl.random() < 0.3
    active = 1 if config["edge"] == "pos" else 0
    steps = []
    counter = wl.randrange(1 << 8)
    mask = (1 << config["width"]) - 1
    remaining = ncycles
    p_rst = fl.choice([0, 0, 0.02, 0.06])
    rst_left = 0
    while remaining > 0:
        prof = wl.choice(list(PROFILES))
        pw, pr = PROFILES[prof]
        n = min(remaining, wl.randint(1, max(2, 2 * config["depth"] + 6)))
        remaining -= n
        for _ in range(n):
            w_en = int(wl.random() < pw)
            r_en = int(wl.random() < pr)
            counter += 1
            sets = []
            if glitch and fl.random() < 0.3:
                sets.append({"k": "set", "v": {"w_en": fl.randint(0, 1), "w_data": fl.randrange(256) & mask,
                                               "r_en": fl.randint(0, 1)}})
            sets.append({"k": "set", "v": {"w_en": w_en, "w_data": counter & mask, "r_en": r_en}})
            if late_set:
                steps.append({"k": "clk", "l": 1 - active})
                steps.extend(sets)
                steps.append({"k": "clk", "l": active})
            else:
                steps.extend(sets)
                steps.append({"k": "clk", "l": active})
                steps.append({"k": "clk", "l": 1 - active})
            if extra_inactive and fl.random() < 0.1:
                steps.append({"k": "clk", "l": 1 - active})   # repeated level: no edge at all
            if p_rst and fl.random() < p_rst:
                if rst_left == 0:
                    steps.insert(len(steps) - fl.choice([0, 0, 1, 2]), {"k": "rst", "l": 1})
                    rst_left = fl.choice([0, 1, 1, 2, 3])          # 0: released again before any active edge
                    if rst_left == 0:
                        steps.append({"k": "rst", "l": 0})
            elif rst_left:
                rst_left -= 1
                if rst_left == 0:
                    steps.insert(len(steps) - fl.choice([0, 0, 1]), {"k": "rst", "l": 0})
    return {"config": config, "sched": {"mode": sc.choice(["seeded", "seeded", "reverse", "insertion"]),
                                        "seed": sc.randrange(1 << 32)}, "steps": steps, "reuse": fl.random() < 0.15}


def build(config):
    from amaranth.lib import fifo
    cls = getattr(fifo, config["cls"])
    return cls(width=config["width"], depth=config["depth"])


def run_case(case):
    config = case["config"]
    depth = config["depth"]
    buffered = config["cls"] == "SyncFIFOBuffered"
    active = 1 if config["edge"] == "pos" else 0
    dut = build(config)
    res = Result()
    dig = Digest()
    stats = {"steps": 0, "edges": 0, "faults": {"overrun": 0, "underrun": 0, "glitch-in": 0, "inactive": 0, "reset": 0},
             "probes": {"reset_while_holding": 0, "reset_pulse_without_edge": 0, "full": 0, "rw_at_full": 0, "rw_at_empty": 0, "rw_at_1": 0, "wrap": 0, "reads": 0, "writes": 0}}
    run = ManualRun(dut, [DomainSpec("sync", edge=config["edge"])],
                    sched_mode=case["sched"]["mode"], sched_seed=case["sched"]["seed"])

    def body(drv):
        dq = deque()
        inp = {"w_en": 0, "w_data": 0, "r_en": 0}
        sigs = {"w_en": dut.w_en, "w_data": dut.w_data, "r_en": dut.r_en}
        clk = 0
        rst = 0
        rst_seen_edge = False
        nedge = 0              # number of active edges so far
        oldest_since = None    # active-edge count after which the current head became the oldest
        accepted = 0
        sets_since_edge = 0

        def observe(step):
            return (drv.get(dut.w_rdy), drv.get(dut.r_rdy), drv.get(dut.r_data), drv.get(dut.level),
                    drv.get(dut.r_level), drv.get(dut.w_level))

        def invariants(step, obs):
            w_rdy, r_rdy, r_data, level, r_level, w_level = obs
            held = len(dq)
            if r_rdy:
                if not dq:
                    raise Violation("r_rdy_when_empty", step, {"held": 0})
                if r_data != dq[0]:
                    raise Violation("r_data_not_oldest", step, {"r_data": r_data, "expected": dq[0], "held": held})
            if w_rdy and held >= depth:
                raise Violation("w_rdy_when_full", step, {"held": held, "depth": depth})
            if not (level == r_level == w_level == held):
                raise Violation("level_mismatch", step, {"level": level, "r_level": r_level, "w_level": w_level,
                                                         "held": held})
            free = depth - held
            if depth > 0 and not w_rdy and free >= (2 if buffered else 1):
                raise Violation("w_rdy_liveness", step, {"held": held, "depth": depth})
            if dq and not r_rdy and oldest_since is not None and nedge >= oldest_since + 2:
                raise Violation("r_rdy_liveness", step, {"held": held, "edges_since_oldest": nedge - oldest_since})

        obs = observe(-1)
        invariants(-1, obs)
        dig.add(obs)
        for i, st in enumerate(case["steps"]):
            drv.begin_step(i)
            stats["steps"] += 1
            if st["k"] == "set":
                for name, val in st["v"].items():
                    if inp[name] != val:
                        inp[name] = val
                        drv.set(sigs[name], val)
                sets_since_edge += 1
                if sets_since_edge == 2:
                    stats["faults"]["glitch-in"] += 1
            elif st["k"] == "rst":
                pre = obs
                is_active = False
                if st["l"] != rst:
                    if rst and not rst_seen_edge:
                        stats["probes"]["reset_pulse_without_edge"] += 1
                    rst = st["l"]
                    rst_seen_edge = False
                    drv.drive({"sync.rst": rst})
            else:
                lvl = st["l"]
                is_active = (lvl != clk and lvl == active)
                pre = obs
                if lvl != clk:
                    stats["edges"] += 1
                clk = lvl
                drv.drive({"sync.clk": lvl})
                if is_active and rst:
                    # crash/restart: everything held is gone, nothing is accepted or delivered at this edge
                    sets_since_edge = 0
                    nedge += 1
                    rst_seen_edge = True
                    stats["faults"]["reset"] += 1
                    if dq:
                        stats["probes"]["reset_while_holding"] += 1
                    dq.clear()
                    oldest_since = None
                elif is_active:
                    sets_since_edge = 0
                    nedge += 1
                    w_rdy, r_rdy = pre[0], pre[1]
                    held = len(dq)
                    do_w = inp["w_en"] and w_rdy
                    do_r = inp["r_en"] and r_rdy
                    if inp["w_en"] and not w_rdy:
                        stats["faults"]["overrun"] += 1
                    if inp["r_en"] and not r_rdy:
                        stats["faults"]["underrun"] += 1
                    if inp["w_en"] and inp["r_en"]:
                        if held == depth:
                            stats["probes"]["rw_at_full"] += 1
                        if held == 0:
                            stats["probes"]["rw_at_empty"] += 1
                        if held == 1:
                            stats["probes"]["rw_at_1"] += 1
                    if do_r:
                        if not dq:
                            raise Violation("read_when_empty", i, {})
                        dq.popleft()
                        stats["probes"]["reads"] += 1
                        oldest_since = nedge if dq else None
                    if do_w:
                        if held >= depth:
                            raise Violation("accept_when_full", i, {"held": held, "depth": depth})
                        dq.append(inp["w_data"])
                        accepted += 1
                        stats["probes"]["writes"] += 1
                        if accepted == depth + 1:
                            stats["probes"]["wrap"] += 1
                        if len(dq) == 1:
                            oldest_since = nedge
                    if len(dq) == depth and depth > 0:
                        stats["probes"]["full"] += 1
                else:
                    stats["faults"]["inactive"] += 1
            obs = observe(i)
            invariants(i, obs)
            if st["k"] in ("clk", "rst") and not is_active and obs != pre:
                raise Violation("changed_without_active_edge", i, {"before": list(pre), "after": list(obs)})
            dig.add((st["k"], obs))

    run_guarded(res, lambda: run.run(body))
    if res.violation is None and case.get("reuse") and True:
        # second use of the very same design object: elaborated and simulated again, it must behave identically
        first = dig.restart()
        run2 = ManualRun(dut, [DomainSpec("sync", edge=config["edge"])], sched_mode=case["sched"]["mode"], sched_seed=case["sched"]["seed"])
        run_guarded(res, lambda: run2.run(body))
        stats["faults"]["reuse"] = stats["faults"].get("reuse", 0) + 1
        if res.violation is None and dig.hexdigest() != first:
            res.violation = {"oracle": "second_use_of_same_object_differs", "step": -1, "detail": {}}
    stats["decisions"] = run.decisions
    dig.add_events(run.events)
    nontrivial = stats["probes"]["reads"] > 0 and any(stats["faults"].values())
    return finish(res, dig, stats, nontrivial)


def signature(case, violation):
    c = case["config"]
    return {"oracle": violation["oracle"], "cls": c["cls"], "depth": c["depth"], "width": c["width"],
            "exc": violation["detail"].get("type") if violation["oracle"] == "exception" else None}


def simplify(case):
    c = case["config"]
    if c["edge"] != "pos":
        # flipping polarity needs flipped levels
        cand = dict(case, config=dict(c, edge="pos"),
                    steps=[(dict(s, l=1 - s["l"]) if s["k"] == "clk" else s) for s in case["steps"]])
        yield cand
    for w in (0, 1, 2):
        if w < c["width"]:
            m = (1 << w) - 1
            steps = []
            for s in case["steps"]:
                if s["k"] == "set" and "w_data" in s["v"]:
                    s = {"k": "set", "v": dict(s["v"], w_data=s["v"]["w_data"] & m)}
                steps.append(s)
            yield dict(case, config=dict(c, width=w), steps=steps)
    for d in DEPTHS:
        if d < c["depth"] and d > 0:
            yield dict(case, config=dict(c, depth=d))
