"""C19  Resource requests map pins one-to-one and constraints name the right pin."""
import re

from dsim.rng import stream, Digest
from dsim.simdrv import Violation
from dsim.runner import Result, finish, run_guarded

ID = "C19"
TITLE = "Resource requests map pins one-to-one and constraints name the right pin"
RULE = ("case = (platform family / toolchain in {iCE40-IceStorm/.pcf, iCE40-iCECube2/.pcf+.sdc, ECP5-Trellis/.lpf, MachXO2-Diamond/.lpf+.sdc, "
        "Nexus-Oxide/.pdc, Nexus-Radiant/.pdc+.sdc, Gowin-Apicula/.cst, Gowin-IDE/.cst+.sdc, Xilinx-X-Ray/.xdc, Xilinx-Vivado/.xdc, "
        "Xilinx-ISE/.ucf, Xilinx-Symbiflow/.pcf+.sdc, Altera-Quartus/.qsf+.sdc, Altera-Mistral/.qsf, QuickLogic/.pcf+.sdc}, "
        "generated resource table with Pins, "
        "PinsN, DiffPairs, nested Subsignals, Attrs, Clocks, connectors and chains of connectors, deliberately overlapping "
        "pins; a history of <= 25 request operations including refusals placed after partial progress: duplicates, unknown "
        "resources, pin conflicts on a late pin of a late subsignal, illegal direction changes, bad xdr; then a build of a "
        "design buffering a seeded subset of the granted ports, optionally with clock constraints the design puts on internal "
        "nets (local to a submodule, of the top module, crossing module boundaries upwards / downwards / between siblings / from "
        "two levels down, or on a signal it never uses); in a seeded third of the runs the same Resource objects were used before "
        "by another board revision with differently wired connectors). Non-trivial = at least one request granted, one refused "
        "and the plan built; distinct = distinct SHA-256 of (outcomes, constraint file).")
ASSUMPTIONS = [
    "Port-name collision (a quarter of the histories): a hand-made IOPort named exactly like one used platform port (clocked or not), one "
    "bit wider and met first in the hierarchy; the constraint file must locate, and declare the clock on, the top-level port of top.il "
    "that has the platform's width (flows without an offline RTLIL netlist: whichever of the two names the file itself uses; SymbiFlow "
    ".sdc files name clocks ASCII-escaped).",
    "Pin-owner model (dict) is the reference for grant/refuse; 'history minus refused operations on a fresh platform' is "
    "the reference for atomicity (same outcomes, same constraint file, same RTLIL port list).",
    "Constraint files are read with small regex parsers, one per constraint syntax (all templates render offline once the Verilog "
    "outputs, which need yosys, are taken out of the plan). A create_clock whose -name was used before in the same file replaces "
    "the earlier clock (SDC semantics): clock names must be unique per file.",
    "Clock frequencies are compared with relative tolerance 1e-6 (Period is integer femtoseconds). A constrained internal net is "
    "named by the '.'-joined path (below the top module) of a module in which the net exists - the driving module, a reading "
    "module or one in between are all accepted - followed by the signal's name, and a wire of that name must exist in that "
    "module of the emitted RTLIL; a constraint on a signal the design never uses yields no line.",
    "Differential pairs: only the positive port is required in the constraint file (vendor templates bind the pair by its "
    "positive pin); a negative-port line, if present, must name the declared pin.",
]
COMPONENTS = {"real": ["amaranth.build.res.ResourceManager", "amaranth.build.dsl", "amaranth.build.plat.Platform/TemplatedPlatform",
                       "amaranth.vendor LatticeICE40Platform / LatticeECP5Platform(Trellis) / GowinPlatform(Apicula) templates",
                       "amaranth.lib.io.Buffer", "amaranth.back.rtlil"],
              "stub": ["pin-owner model", "constraint-file parsers", "no toolchain is executed (do_build=False)"]}
EXPECTED_PROBES = ("refuse", "refuse_conflict_late", "refuse_duplicate", "refuse_unknown", "refuse_bad_dir", "refuse_bad_xdr",
                   "refuse_bad_xdr_late", "granted", "connector_chain", "diffpairs", "clock_constraints", "net_clock_constraints", "net_clock_crossing_modules", "cancelled_attribute",
                   "oscillator_default_clock",
                   "resources_shared_with_other_revision", "built",
                   "legal_after_refusal")

PHYS = ["P%d" % i for i in range(1, 41)]


def _gen_ios(cfg, pool, conns, depth, p_clock, allow_diff=True):
    """-> ios tree. pool: physical pin names to draw from (with replacement across resources -> overlaps)."""
    r = cfg.random()
    if depth < 2 and r < 0.3:
        n = cfg.randint(1, 3)
        grp = {"subs": [dict(_gen_ios(cfg, pool, conns, depth + 1, p_clock, allow_diff), name="s%d" % i) for i in range(n)]}
        if cfg.random() < 0.3:
            # attributes given at group level are inherited by the members, which may override or cancel (None) them
            grp["attrs"] = {"PULL": cfg.choice(["DOWN", None]), "IO_STANDARD": "LV3"}
        return grp
    width = cfg.choice([1, 1, 2, 3, 4])
    d = cfg.choice(["i", "o", "io", "oe"])
    node = {"dir": d, "invert": cfg.random() < 0.3, "conn": None, "clock_mhz": None, "attrs": {}}
    if cfg.random() < 0.3:
        node["attrs"] = {"IO_STANDARD": cfg.choice(["LV1", "LV2"])}
        if cfg.random() < 0.5:
            node["attrs"] = dict(PULL=cfg.choice(["UP", None, None]), **node["attrs"]) if cfg.random() < 0.5 else \
                dict(node["attrs"], PULL=cfg.choice(["UP", None, None]))
        if cfg.random() < 0.3:
            node["attrs"]["DRIVE"] = cfg.choice([4, 8, 12])       # attribute values may be integers as well as strings
    use_conn = conns and cfg.random() < 0.35
    if use_conn:
        c = cfg.choice(conns)
        node["conn"] = [c["name"], c["number"]]
        avail = [k for k, v in enumerate(c["pins"], start=1) if v != "-"]
        if not avail:
            node["conn"] = None
            use_conn = False
    def draw(k):
        if use_conn:
            return [str(cfg.choice(avail)) for _ in range(k)] if k > len(avail) else [str(x) for x in cfg.sample(avail, k)]
        return cfg.sample(pool, k)
    if cfg.random() < 0.25 and allow_diff:
        node["diff"] = {"p": draw(width), "n": draw(width)}
        node["dir"] = d = cfg.choice(["i", "o"])      # the open-toolchain platforms reject bidirectional differential buffers
    else:
        node["pins"] = draw(width)
    # (a clock may be declared on a port of several pins too - a bus of forwarded clocks: the constraint then names the whole port)
    if d == "i" and cfg.random() < (p_clock if width == 1 else p_clock * 0.4):
        node["clock_mhz"] = cfg.choice([12, 25, 48, 50, 100, 133, 0.032768, 1.8432, 25.175, 33.333333, 0.001, 7.3728])
    return node


def gen_case(seed, tier):
    cfg = stream(seed, "cfg")
    wl = stream(seed, "workload")
    fl = stream(seed, "faults")
    family = cfg.choice(["ice40", "ice40", "ecp5", "gowin", "xray", "quicklogic",
                         "vivado", "ise", "symbiflow", "quartus", "mistral", "diamond", "oxide", "radiant", "icecube", "gowin_ide"])
    npool = cfg.choice([6, 10, 16, 30])
    pool = PHYS[:npool]
    conns = []
    for ci in range(cfg.choice([0, 1, 2, 3])):
        n = cfg.randint(2, 6)
        pins = []
        parent = None
        if conns and cfg.random() < 0.5:
            parent = cfg.choice(conns)
        for _ in range(n):
            if cfg.random() < 0.15:
                pins.append("-")
            elif parent is not None:
                avail = [k for k, v in enumerate(parent["pins"], start=1) if v != "-"]
                pins.append(str(cfg.choice(avail)) if avail else "-")
            else:
                pins.append(cfg.choice(pool))
        conns.append({"name": "j", "number": ci, "pins": pins, "form": cfg.choice(["str", "str", "dict"]),
                      "conn": [parent["name"], parent["number"]] if parent is not None else None})
    resources = []
    nres = cfg.randint(2, 8)
    names = ["ra", "rb", "rc"]
    seen = set()
    for _ in range(nres):
        nm = cfg.choice(names)
        num = cfg.randint(0, 3)
        if (nm, num) in seen:
            continue
        seen.add((nm, num))
        resources.append(dict(_gen_ios(cfg, pool, conns, 0, 0.5, allow_diff=(family != "quicklogic")), name=nm, number=num))
    config = {"family": family, "connectors": conns, "resources": resources, "default_clk": None,
              "decoy_rev": bool(conns) and cfg.random() < 0.3}
    cands = [r for r in resources if r["number"] == 0 and "pins" in r and len(r["pins"]) == 1 and r["dir"] == "i"
             and r["clock_mhz"]]      # (vendor platforms demand a constrained default clock)
    if cands and cfg.random() < 0.4:
        # the platform requests this resource itself (create_missing_domain) when the design uses an undeclared `sync` domain
        config["default_clk"] = cfg.choice(cands)["name"]
    if not config["default_clk"] and family in ("ice40", "gowin", "quicklogic") and cfg.random() < 0.2:
        # the default clock comes from an on-chip oscillator: the platform builds the `sync` domain itself, no pin is involved
        config["osc_clk"] = {"ice40": cfg.choice([["SB_HFOSC", cfg.randint(0, 3)], ["SB_LFOSC", 0]]),
                             "gowin": cfg.choice([["GW1NR-LV9QN88PC6/I5", "GW1NR-9C", 25000000], ["GW1NZ-LV1QN48C6/I5", "GW1NZ-1", 25000000],
                                                  ["GW1NS-LV2CQN48C6/I5", "GW1NS-2C", 24000000]]),
                             "quicklogic": ["sys_clk0", cfg.choice([2, 12, 512])]}[family]
    ops = []
    nops = wl.randint(2, 12) if tier == "quick" else wl.randint(2, 25)
    for _ in range(nops):
        r = wl.random()
        if resources and r < 0.75:
            res = wl.choice(resources)
            op = {"op": "request", "name": res["name"], "number": res["number"], "dir": "-", "xdr": None}
            q = fl.random()
            if q < 0.12:
                op["dir"] = None             # deprecated Pin path, declared direction
            elif q < 0.2:
                op["dir"] = fl.choice(["i", "o", "io", "oe", "bogus"])
            elif q < 0.25:
                op["xdr"] = fl.choice([-1, 0, "x"])
            elif q < 0.32:
                # refused late: the data rate is only rejected when the pin buffer is built, after pins were recorded
                op["dir"] = None
                op["xdr"] = 3
        elif r < 0.85:
            op = {"op": "request", "name": wl.choice(names + ["nope"]), "number": wl.randint(0, 5), "dir": "-", "xdr": None}
        else:
            res = wl.choice(resources) if resources else {"name": "ra", "number": 0}
            op = {"op": "request", "name": res["name"], "number": res["number"], "dir": "-", "xdr": None}
        ops.append(op)
    if config["default_clk"] and fl.random() < 0.7:
        ops = [op for op in ops if op["name"] != config["default_clk"]] or ops[:1]
    # clock constraints the design itself puts on internal nets (named by hierarchical path in the constraint file), on a net
    # of the top module, and on a signal the design never uses (must be skipped silently)
    net_clocks = []
    if wl.random() < 0.4 and family not in ("quicklogic", "symbiflow"):      # (their .sdc names nets by the bare signal name: not judged)
        for sub in wl.sample(["local", "top", "unused", "sub_to_top", "top_to_sub", "sibling", "deep"], wl.randint(1, 3)):
            net_clocks.append({"sub": sub, "mhz": wl.choice([6, 12.5, 0.032768, 100, 33.333333])})
        if wl.random() < 0.3:
            # the same block instantiated more than once: constrained nets of one (Python) name in different submodules
            net_clocks = [dict(nc, sub="local", same_name=True) for nc in net_clocks] + \
                         [{"sub": "local", "mhz": wl.choice([6, 50, 100]), "same_name": True}]
    return {"config": config, "steps": ops, "use_frac": wl.choice([1.0, 1.0, 0.6, 0.3]), "use_seed": wl.randrange(1 << 30),
            "net_clocks": net_clocks}


# ---- building the real platform ---------------------------------------------------------------------------------
def make_platform(config, shared_res=None, res_out=None):
    from amaranth.build import Resource, Subsignal, Pins, DiffPairs, Attrs, Clock, Connector
    from amaranth.hdl import Period
    from amaranth import vendor

    def mk(node, top):
        args = []
        if "subs" in node:
            for s in node["subs"]:
                args.append(Subsignal(s["name"], *mk(s, False)))
            if node.get("attrs"):
                args.append(Attrs(**node["attrs"]))
            return args
        conn = tuple(node["conn"]) if node["conn"] else None
        if "diff" in node:
            args.append(DiffPairs(" ".join(node["diff"]["p"]), " ".join(node["diff"]["n"]), dir=node["dir"],
                                  invert=node["invert"], conn=conn))
        else:
            args.append(Pins(" ".join(node["pins"]), dir=node["dir"], invert=node["invert"], conn=conn))
        if node["clock_mhz"]:
            args.append(Clock(Period(MHz=node["clock_mhz"])))
        if node["attrs"]:
            args.append(Attrs(**node["attrs"]))
        return args

    res = shared_res if shared_res is not None else [Resource(r["name"], r["number"], *mk(r, True)) for r in config["resources"]]
    if res_out is not None:
        res_out.extend(res)
    con = []
    for c in config["connectors"]:
        if c.get("form") == "dict":
            io_ = {str(k): v for k, v in enumerate(c["pins"], start=1) if v != "-"}
        else:
            io_ = " ".join(c["pins"])
        con.append(Connector(c["name"], c["number"], io_, conn=tuple(c["conn"]) if c["conn"] else None))
    fam = config["family"]
    osc = config.get("osc_clk")
    if fam == "ice40":
        class Plat(vendor.LatticeICE40Platform):
            device = "iCE40UP5K" if osc else "iCE40HX8K"
            package = "SG48" if osc else "CT256"
            default_clk = osc[0] if osc else config.get("default_clk")
            hfosc_div = osc[1] if osc else 0
            resources = res
            connectors = con
        return Plat(), ".pcf"
    if fam == "ecp5":
        class Plat(vendor.LatticeECP5Platform):
            device = "LFE5U-25F"
            package = "BG381"
            speed = "6"
            default_clk = config.get("default_clk")
            resources = res
            connectors = con
        return Plat(toolchain="Trellis"), ".lpf"
    def _no_verilog(cls):
        # (the Verilog outputs need yosys, which is not installed; they have no bearing on the constraint files)
        class NoV(cls):
            @property
            def file_templates(self):
                t = dict(super().file_templates)
                for k_ in list(t):
                    if k_.endswith(".v"):
                        del t[k_]
                return t
        return NoV
    if fam == "xray":
        class Plat(_no_verilog(vendor.XilinxPlatform)):
            device = "xc7a35ti"
            package = "csg324"
            speed = "1L"
            default_clk = config.get("default_clk")
            resources = res
            connectors = con
        return Plat(toolchain="Xray"), ".xdc"
    if fam == "quicklogic":
        class Plat(_no_verilog(vendor.QuicklogicPlatform)):
            device = "ql-eos-s3"
            package = "PU64"
            osc_freq = 60_000_000
            osc_div = osc[1] if osc else 2
            default_clk = osc[0] if osc else config.get("default_clk")
            resources = res
            connectors = con
        return Plat(), ".pcf+sdc"
    more = {
        "vivado": (vendor.XilinxPlatform, dict(device="xc7a35ti", package="csg324", speed="1L"), dict(toolchain="Vivado"), ".xdc+vivado"),
        "ise": (vendor.XilinxPlatform, dict(device="xc6slx9", package="tqg144", speed="2"), dict(toolchain="ISE"), ".ucf"),
        "symbiflow": (vendor.XilinxPlatform, dict(device="xc7a35ti", package="csg324", speed="1L"), dict(toolchain="Symbiflow"),
                      ".pcf+symbiflow"),
        "quartus": (vendor.AlteraPlatform, dict(device="5CSEBA6", package="U23", speed="I7"), dict(toolchain="Quartus"), ".qsf+sdc"),
        "mistral": (vendor.AlteraPlatform, dict(device="5CSEBA6", package="U23", speed="I7"), dict(toolchain="Mistral"), ".qsf"),
        "diamond": (vendor.LatticePlatform, dict(device="LCMXO2-1200HC", package="TG100", speed="4"), dict(toolchain="Diamond"),
                    ".lpf+sdc"),
        "oxide": (vendor.LatticePlatform, dict(device="LIFCL-40", package="BG400", speed="9"), dict(toolchain="Oxide"), ".pdc"),
        "radiant": (vendor.LatticePlatform, dict(device="LIFCL-40", package="BG400", speed="9"), dict(toolchain="Radiant"), ".pdc+sdc"),
        "icecube": (vendor.SiliconBluePlatform, dict(device="iCE40HX8K", package="CT256"), dict(toolchain="LSE-iCECube2"),
                    ".pcf+icecube"),
        "gowin_ide": (vendor.GowinPlatform, dict(part="GW1NR-LV9QN88PC6/I5", family="GW1NR-9C"), dict(toolchain="Gowin"), ".cst+sdc"),
    }
    if fam in more:
        base_, attrs_, kw_, ext_ = more[fam]
        Plat = type("Plat", (_no_verilog(base_),), dict(attrs_, default_clk=config.get("default_clk"), resources=res, connectors=con))
        return Plat(**kw_), ext_
    class Plat(vendor.GowinPlatform):
        part = osc[0] if osc else "GW1NR-LV9QN88PC6/I5"
        family = osc[1] if osc else "GW1NR-9C"
        osc_frequency = osc[2] if osc else 25000000
        default_clk = "OSC" if osc else config.get("default_clk")
        resources = res
        connectors = con
    return Plat(toolchain="Apicula"), ".cst"


# ---- the model ------------------------------------------------------------------------------------------------------
def resolve_pin(config, name):
    """Follow connector chains: 'j_0:3' -> physical name (None if it does not resolve)."""
    conns = {(c["name"], c["number"]): c for c in config["connectors"]}
    hops = 0
    while ":" in name:
        cn, pin = name.split(":")
        nm, num = cn.rsplit("_", 1)
        c = conns.get((nm, int(num)))
        if c is None or not pin.isdigit() or not (1 <= int(pin) <= len(c["pins"])) or c["pins"][int(pin) - 1] == "-":
            return None, hops
        nxt = c["pins"][int(pin) - 1]
        name = ("%s_%s:%s" % (c["conn"][0], c["conn"][1], nxt)) if c["conn"] else nxt
        hops += 1
    return name, hops


def leaves(config, res):
    """-> list of (path tuple, node, [phys pins p], [phys pins n] or None, max connector hops)"""
    out = []

    def walk(node, path):
        if "subs" in node:
            for s in node["subs"]:
                walk(s, path + (s["name"],))
            return
        def names(lst):
            r, mh = [], 0
            for n in lst:
                if node["conn"]:
                    n = "%s_%s:%s" % (node["conn"][0], node["conn"][1], n)
                ph, h = resolve_pin(config, n)
                mh = max(mh, h)
                r.append(ph)
            return r, mh
        if "diff" in node:
            p, h1 = names(node["diff"]["p"])
            n, h2 = names(node["diff"]["n"])
            out.append((path, node, p, n, max(h1, h2)))
        else:
            p, h = names(node["pins"])
            out.append((path, node, p, None, h))
    walk(res, ("%s_%d" % (res["name"], res["number"]),))
    return out


def _attr_chain(res_desc, path):
    """attribute dicts from the resource down to the leaf at `path` (path[0] is the resource's own name)"""
    node, chain = res_desc, [res_desc.get("attrs") or {}]
    for nm in path[1:]:
        node = next(s for s in node["subs"] if s["name"] == nm)
        chain.append(node.get("attrs") or {})
    return chain


def expected_attrs(res_desc, path):
    """members inherit, override or cancel (None) the attributes given further up"""
    cur = {}
    for a in _attr_chain(res_desc, path):
        cur.update(a)
        cur = {k: v for k, v in cur.items() if v is not None}
    return cur


def legal_dir(node_dir, req):
    if req in (None, "-"):
        return True
    if req not in ("i", "o", "oe", "io"):
        return False
    return req == node_dir or node_dir == "io"


def model_request(config, state, op):
    """-> ("ok", leaves) | ("refuse", kind).  state = {"granted": set, "owner": {pin: path}}"""
    res = next((r for r in config["resources"] if r["name"] == op["name"] and r["number"] == op["number"]), None)
    if res is None:
        return "refuse", "unknown"
    if (op["name"], op["number"]) in state["granted"]:
        return "refuse", "duplicate"
    lv = leaves(config, res)
    has_subs = "subs" in res
    if op["dir"] not in (None, "-"):
        if has_subs:
            return "refuse", "bad_dir"        # a plain string direction for a resource with subsignals
        if not legal_dir(res["dir"], op["dir"]):
            return "refuse", "bad_dir"
    if op["xdr"] is not None:
        if has_subs:
            return "refuse", "bad_xdr"
        if not isinstance(op["xdr"], int) or op["xdr"] < 0:
            return "refuse", "bad_xdr"
        if op["dir"] != "-" and op["xdr"] > 2:
            return "refuse", "bad_xdr_late"
    new = {}
    for li, (path, node, p, n, hops) in enumerate(lv):
        for k, ph in enumerate(p + (n or [])):
            if ph is None:
                return "refuse", "unresolved"
            if ph in state["owner"] or ph in new:
                late = li > 0 or k > 0
                return "refuse", "conflict_late" if (late and new) else "conflict"
            new[ph] = path
    state["granted"].add((op["name"], op["number"]))
    state["owner"].update(new)
    return "ok", lv


# ---- constraint file parsers ----------------------------------------------------------------------------------------
def _unq(x):
    x = x.strip()
    if x[:1] in "\"{" and x[-1:] in "\"}":
        x = x[1:-1]
    return x.replace("\\", "")


COLLIDE_P = 0.25
CLOCK_NAMES = []       # (-name of every create_clock of the constraint files parsed last)


def parse_constraints(ext, text, files=None):
    locs, freqs = [], []
    del CLOCK_NAMES[:]
    if ext in (".xdc+vivado", ".qsf+sdc", ".lpf+sdc", ".pdc", ".pdc+sdc", ".pcf+icecube", ".cst+sdc", ".pcf+symbiflow"):
        # SDC-style clocks: in the pin file itself (Vivado .xdc, Oxide .pdc) or in a separate .sdc
        if ext in (".xdc+vivado", ".pdc"):
            sdc = text
        else:
            sdc = next((v for k, v in (files or {}).items() if k.endswith(".sdc")), "")
            sdc = sdc.decode() if isinstance(sdc, bytes) else sdc
        sdc = re.sub(r"\[get_(ports|nets)\s*\n\s*", r"[get_\1 ", sdc)
        for line in sdc.splitlines():
            line = line.strip()
            m = re.fullmatch(r"create_clock -name (\S+) -period (\S+) \[get_(?:ports|nets) (.+)\]", line)
            if m:
                CLOCK_NAMES.append(_unq(m.group(1)))
                freqs.append((_unq(m.group(3)).replace("/", ".").replace("|", "."), 1e9 / float(m.group(2))))
                continue
            m = re.fullmatch(r"create_clock -period (\S+) (\S+)", line)
            if m:
                freqs.append((m.group(2), 1e9 / float(m.group(1))))
                continue
            if line.startswith("create_clock"):
                raise Violation("unreadable_clock_constraint", -1, {"line": line})
        for line in text.splitlines():
            line = line.strip()
            m = (re.fullmatch(r"set_property LOC (\S+) \[get_ports (.+)\]", line) if ext == ".xdc+vivado" else
                 re.fullmatch(r"set_location_assignment -to (?P<n>.+) PIN_(?P<p>\S+)", line) if ext == ".qsf+sdc" else
                 re.fullmatch(r'LOCATE COMP (?P<n>"[^"]+") SITE "(?P<p>[^"]+)";', line) if ext == ".lpf+sdc" else
                 re.fullmatch(r'ldc_set_location -site (?P<p>\S+) \[get_ports (?P<n>.+)\]', line) if ext in (".pdc", ".pdc+sdc") else
                 re.fullmatch(r"set_io (?P<n>\S+) (?P<p>\S+)", line) if ext in (".pcf+icecube", ".pcf+symbiflow") else
                 re.fullmatch(r'IO_LOC (?P<n>"[^"]+") (?P<p>\S+);', line))
            if m:
                if ext == ".xdc+vivado":
                    locs.append((_unq(m.group(2)), m.group(1)))
                else:
                    locs.append((_unq(m.group("n")), _unq(m.group("p"))))
        return locs, freqs
    if ext == ".qsf":
        for line in text.splitlines():
            m = re.fullmatch(r"set_location_assignment -to (.+) PIN_(\S+)", line.strip())
            if m:
                locs.append((_unq(m.group(1)), m.group(2)))
        return locs, freqs
    if ext == ".ucf":
        for line in text.splitlines():
            line = line.strip()
            m = re.fullmatch(r'NET "([^"]+)" LOC=(\S+);', line)
            if m:
                locs.append((m.group(1).replace("<", "[").replace(">", "]"), m.group(2)))
            m = re.fullmatch(r'TIMESPEC "TS([^"]*)"=PERIOD "PRD([^"]+)" (\S+) ns HIGH 50%;', line)
            if m:
                CLOCK_NAMES.append(m.group(1))
                freqs.append((m.group(2).replace("/", "."), 1e9 / float(m.group(3))))
        return locs, freqs
    if ext == ".pcf+sdc":
        # QuickLogic: pins in the .pcf, clocks (periods in ns) in the .sdc
        sdc = next((v for k, v in (files or {}).items() if k.endswith(".sdc")), "")
        sdc = sdc.decode() if isinstance(sdc, bytes) else sdc
        for line in sdc.splitlines():
            m = re.fullmatch(r"create_clock -period (\S+) (\S+)", line.strip())
            if m:
                freqs.append((m.group(2), 1e9 / float(m.group(1))))
    for line in text.splitlines():
        line = line.strip()
        if ext == ".xdc":
            m = re.fullmatch(r'set_property LOC (\S+) \[get_ports (.+)\]', line)
            if m:
                nm = m.group(2).strip()
                if nm.startswith('"') or nm.startswith("{"):
                    nm = nm[1:-1]
                locs.append((nm.replace("\\", ""), m.group(1)))
            continue
        if ext in (".pcf", ".pcf+sdc"):
            m = re.fullmatch(r"set_io (\S+) (\S+)", line)
            if m:
                locs.append((m.group(1), m.group(2)))
            m = re.fullmatch(r"set_frequency (\S+) (\S+)", line)
            if m:
                freqs.append((m.group(1), float(m.group(2)) * 1e6))
        elif ext == ".lpf":
            m = re.fullmatch(r'LOCATE COMP "([^"]+)" SITE "([^"]+)";', line)
            if m:
                locs.append((m.group(1), m.group(2)))
            m = re.fullmatch(r'FREQUENCY (?:PORT|NET) "([^"]+)" (\S+) HZ;', line)
            if m:
                freqs.append((m.group(1), float(m.group(2))))
        else:
            m = re.fullmatch(r'IO_LOC "([^"]+)" (\S+);', line)
            if m:
                locs.append((m.group(1), m.group(2)))
    return locs, freqs


def run_history(config, ops, use_frac, use_seed, stats=None, record=None, net_clocks=()):
    """Executes ops on a fresh platform; returns (outcomes, constraint text, rtlil ports, parsed)."""
    import random
    import warnings
    from amaranth.hdl import Module, Signal, Cat, Const
    from amaranth.lib import io
    from amaranth.build import ResourceError
    if config.get("decoy_rev") and config["connectors"]:
        # another board revision first: the *same* Resource objects on a platform whose connectors are wired differently,
        # every resource requested there; nothing of it may stick to the shared objects
        import warnings as _w
        shared = []
        dconf = dict(config, connectors=[dict(c, pins=c["pins"][1:] + c["pins"][:1]) for c in config["connectors"]], default_clk=None)
        dplat, _ = make_platform(dconf, res_out=shared)
        with _w.catch_warnings():
            _w.simplefilter("ignore")
            for r in config["resources"]:
                try:
                    dplat.request(r["name"], r["number"], dir="-")
                except Exception:
                    pass
        plat, ext = make_platform(config, shared_res=shared)
        if stats is not None:
            stats["probes"]["resources_shared_with_other_revision"] = stats["probes"].get("resources_shared_with_other_revision", 0) + 1
    else:
        plat, ext = make_platform(config)
    state = {"granted": set(), "owner": {}}
    outcomes = []
    granted = []      # (op, leaves, returned object)
    refused_before = False
    for i, op in enumerate(ops):
        exp, info = model_request(config, state, op)
        kw = {}
        if op["dir"] is not None:
            kw["dir"] = op["dir"]
        if op["xdr"] is not None:
            kw["xdr"] = op["xdr"]
        try:
            with warnings.catch_warnings():
                warnings.simplefilter("ignore")
                obj = plat.request(op["name"], op["number"], **kw)
            got = "ok"
        except ResourceError as e:
            got, obj = "ResourceError", None
        except (TypeError, ValueError, NameError) as e:
            got, obj = type(e).__name__, None
        outcomes.append(got)
        if exp == "ok":
            if got != "ok":
                raise Violation("legal_request_refused", i, {"op": op, "raised": got, "after_refusal": refused_before})
            if stats is not None:
                stats["probes"]["granted"] += 1
                if refused_before:
                    stats["probes"]["legal_after_refusal"] += 1
            granted.append((op, info, obj))
        else:
            if got == "ok":
                raise Violation("illegal_request_granted", i, {"op": op, "expected_refusal": info})
            if info in ("unknown", "duplicate", "conflict", "conflict_late") and got != "ResourceError":
                raise Violation("wrong_exception_type", i, {"op": op, "kind": info, "raised": got})
            refused_before = True
            if stats is not None:
                stats["faults"]["refuse"] += 1
                key = {"conflict_late": "refuse_conflict_late", "conflict": "refuse_conflict", "duplicate": "refuse_duplicate",
                       "unknown": "refuse_unknown", "bad_dir": "refuse_bad_dir", "bad_xdr": "refuse_bad_xdr",
                       "bad_xdr_late": "refuse_bad_xdr_late",
                       "unresolved": "refuse_unresolved"}[info]
                stats["probes"][key] = stats["probes"].get(key, 0) + 1

    # returned ports: one bit per declared pin, declared order / inversion / direction
    expect_loc = {}       # top-level port bit name -> physical pin
    expect_clk = {}       # port name -> Hz
    optional_loc = {}
    used = []
    rng = random.Random(use_seed)
    m = Module()
    # name collision (a quarter of the histories): the design also has a hand-made IOPort called exactly like one of the platform's
    # used ports (one bit wider, met first in the hierarchy), so the netlist renames one of the two `<name>$<k>`; the constraint
    # file must go on naming the netlist port that carries the platform's pins
    crng = random.Random((use_seed * 2654435761 + 17) & 0xffffffff)
    collide_pre = None
    collision = None      # (base port name, platform width)
    if crng.random() < COLLIDE_P:
        collide_pre = Module()
        m.submodules.pre = collide_pre
    sink = []
    src = Signal(8, name="src")
    bi = 0
    for (op, lv, obj) in granted:
        for (path, node, p, n, hops) in lv:
            o = obj
            for nm in path[1:]:
                o = getattr(o, nm)
            pname = "__".join(path)
            if stats is not None and hops >= 2:
                stats["probes"]["connector_chain"] += 1
            if op["dir"] != "-":
                # deprecated Pin path: the platform inserts the buffer itself
                width = len(p)
                if o.width != width:
                    raise Violation("pin_width", -1, {"path": list(path), "width": o.width, "declared": width})
                d = op["dir"] or node["dir"]
                if d in ("i", "io"):
                    sink.append(o.i)
                if d in ("o", "oe", "io"):
                    m.d.comb += o.o.eq(src[:width])
                if d in ("oe", "io"):
                    m.d.comb += o.oe.eq(src[0])
                is_used = True
            else:
                width = len(p)
                if len(o) != width:
                    raise Violation("port_width", -1, {"path": list(path), "len": len(o), "declared": width})
                exp_dir = {"i": "i", "o": "o", "oe": "o", "io": "io"}[node["dir"]]
                if o.direction.value != exp_dir:
                    raise Violation("port_direction", -1, {"path": list(path), "direction": o.direction.value,
                                                           "declared": node["dir"]})
                if tuple(o.invert) != (node["invert"],) * width:
                    raise Violation("port_invert", -1, {"path": list(path), "invert": list(o.invert),
                                                        "declared": node["invert"]})
                ports = [("p", o.p), ("n", o.n)] if n is not None else [("io", o.io)]
                res_desc = next(r_ for r_ in config["resources"] if r_["name"] == op["name"] and r_["number"] == op["number"])
                want_attrs = expected_attrs(res_desc, path)
                for suffix, iop in ports:
                    for mm in iop.metadata:
                        if dict(mm.attrs) != want_attrs:
                            raise Violation("port_attributes", -1, {"path": list(path), "attrs": dict(mm.attrs), "declared": want_attrs})
                    if any(v is None for a in _attr_chain(res_desc, path) for v in a.values()) and stats is not None:
                        stats["probes"]["cancelled_attribute"] = stats["probes"].get("cancelled_attribute", 0) + 1
                    meta = [mm.name for mm in iop.metadata]
                    decl = p if suffix in ("io", "p") else n
                    if meta != decl:
                        raise Violation("port_pin_names", -1, {"path": list(path), "port": suffix, "metadata": meta,
                                                               "declared": decl})
                is_used = rng.random() < use_frac
                if is_used:
                    bdir = exp_dir
                    buf = io.Buffer(bdir, o)
                    m.submodules["b%d" % bi] = buf
                    bi += 1
                    if bdir in ("i", "io"):
                        sink.append(buf.i)
                    if bdir in ("o", "io"):
                        m.d.comb += buf.o.eq(src[:width])
                        m.d.comb += buf.oe.eq(src[1])
            if n is not None and stats is not None:
                stats["probes"]["diffpairs"] += 1
            suffixes = [("p", p), ("n", n)] if n is not None else [("io", p)]
            for suffix, pins in suffixes:
                port = pname + "__" + suffix
                tbl = expect_loc if (is_used and suffix != "n") else optional_loc
                for k, ph in enumerate(pins):
                    tbl[port if len(pins) == 1 else "%s[%d]" % (port, k)] = ph
            if node["clock_mhz"]:
                cport = pname + ("__p" if n is not None else "__io")
                (expect_clk if is_used else optional_loc)[("clk", cport) if not is_used else cport] = node["clock_mhz"] * 1e6
            if is_used:
                used.append(pname)
                if collide_pre is not None and collision is None and op["dir"] == "-" and crng.random() < 0.5:
                    from amaranth.hdl import IOPort, IOBufferInstance
                    base = pname + ("__p" if n is not None else "__io")
                    hand = IOPort(len(p) + 1, name=base)
                    hs = Signal(len(p) + 1, name="hand_in")
                    collide_pre.submodules.hb = IOBufferInstance(hand, i=hs)
                    sink.append(hs)
                    collision = (base, len(p))
    build_should_fail = None
    if config.get("osc_clk"):
        cnt = Signal(4, name="cnt")
        m.d.sync += cnt.eq(cnt + 1)
        sink.append(cnt)
        if stats is not None:
            stats["probes"]["oscillator_default_clock"] = stats["probes"].get("oscillator_default_clock", 0) + 1
    if config.get("default_clk"):
        cnt = Signal(4, name="cnt")
        m.d.sync += cnt.eq(cnt + 1)
        sink.append(cnt)
        dop = {"op": "request", "name": config["default_clk"], "number": 0, "dir": "-", "xdr": None}
        exp, info = model_request(config, state, dop)
        if exp == "ok":
            for (path, node, p, n, hops) in info:
                pname = "__".join(path)
                expect_loc[pname + "__io"] = p[0]
                if node["clock_mhz"]:
                    expect_clk[pname + "__io"] = node["clock_mhz"] * 1e6
            if stats is not None:
                stats["probes"]["default_clk_requested_by_platform"] = stats["probes"].get("default_clk_requested_by_platform", 0) + 1
        else:
            build_should_fail = info
    out = Signal(name="sink_out")
    if sink:
        m.d.comb += out.eq(Cat(*sink).xor())
    expect_net = []       # [acceptable hierarchical names, Hz, matched?]
    for k, nc in enumerate(net_clocks):
        from amaranth.hdl import Period as _Period
        leaf = "slow_clk" if nc.get("same_name") else "slow_clk%d" % k
        slow = Signal(name=leaf)
        if nc.get("same_name") and stats is not None:
            stats["probes"]["net_clocks_of_one_name"] = stats["probes"].get("net_clocks_of_one_name", 0) + 1
        mode = nc["sub"]
        sa, sb = "nc%da" % k, "nc%db" % k

        def reader(mod, tag):
            rd = Signal(name="rd%d%s" % (k, tag))
            mod.d.comb += rd.eq(slow)
        if mode == "unused":
            names = None
        elif mode is None or mode == "top":
            m.d.comb += slow.eq(~out)
            names = [leaf]
        elif mode == "top_to_sub":
            m.d.comb += slow.eq(~out)
            subm = Module()
            reader(subm, "s")
            m.submodules[sa] = subm
            names = [leaf, sa + "." + leaf]
        else:
            subm = Module()
            m.submodules[sa] = subm
            if mode == "deep":
                inner = Module()
                inner.d.comb += slow.eq(~out)
                subm.submodules.inner = inner
                reader(m, "t")
                names = [sa + ".inner." + leaf, sa + "." + leaf, leaf]
            else:
                subm.d.comb += slow.eq(~out)
                names = [sa + "." + leaf]
                if mode == "sub_to_top":
                    reader(m, "t")
                    names.append(leaf)
                elif mode == "sibling":
                    sib = Module()
                    reader(sib, "b")
                    m.submodules[sb] = sib
                    names += [leaf, sb + "." + leaf]
        plat.add_clock_constraint(slow, _Period(MHz=nc["mhz"]))
        if names is not None:
            expect_net.append([names, nc["mhz"] * 1e6, False])
        if stats is not None:
            stats["probes"]["net_clock_constraints"] = stats["probes"].get("net_clock_constraints", 0) + 1
            if names and len(names) > 1:
                stats["probes"]["net_clock_crossing_modules"] = stats["probes"].get("net_clock_crossing_modules", 0) + 1
    with warnings.catch_warnings():
        warnings.simplefilter("ignore")
        if build_should_fail is not None:
            try:
                plat.build(m, do_build=False)
            except ResourceError:
                if stats is not None:
                    stats["faults"]["refuse"] += 1
                    stats["probes"]["default_clk_refused_at_build"] = stats["probes"].get("default_clk_refused_at_build", 0) + 1
                return outcomes + ["build:ResourceError"], "", []
            raise Violation("illegal_request_granted", len(ops), {"op": "platform default_clk request at build",
                                                                  "expected_refusal": build_should_fail})
        try:
            plan = plat.build(m, do_build=False)
        except Exception as e:
            import traceback as _tb
            where = _tb.extract_tb(e.__traceback__)[-1].filename.split("amaranth/")[-1]
            if config.get("osc_clk") and not (where.startswith("vendor/") or where.startswith("build/")):
                # the platform's own clock source could not be built: not a refusal by the platform code, a crash below it
                raise Violation("platform_clock_source_crash", -1, {"osc": config["osc_clk"], "raised": type(e).__name__,
                                                                    "where": where, "msg": str(e)[:200]})
            frames = [f_.filename for f_ in _tb.extract_tb(e.__traceback__)]
            if any("/amaranth/" in f_ for f_ in frames) and not isinstance(e, ResourceError):
                # every request was granted and the design only uses what was granted: the plan must be preparable
                inside = [f_.split("amaranth/")[-1] for f_ in frames if "/amaranth/" in f_]
                raise Violation("plan_preparation_crash", -1, {"family": config["family"], "raised": type(e).__name__,
                                                               "where": inside[-1], "msg": str(e)[:200]})
            raise
    text = next((v for k, v in plan.files.items() if k.endswith(ext.split("+")[0])), None)
    if text is None:
        raise Violation("no_constraint_file", -1, {"files": sorted(plan.files)})
    if isinstance(text, bytes):
        text = text.decode()
    if stats is not None:
        stats["probes"]["built"] += 1
    locs, freqs = parse_constraints(ext, text, plan.files)
    if collision is not None:
        base, pw = collision
        ilc = plan.files.get("top.il", "")
        ilc = ilc.decode() if isinstance(ilc, bytes) else ilc
        mt = re.search(r"^module \\top$(.*?)^end$", ilc, re.M | re.S)
        if mt is None:
            # (this flow writes no RTLIL netlist offline: take the name the constraint file itself uses, if it is one of the two)
            cands = sorted({nm.split("[")[0] for nm, _pin in locs
                            if nm.split("[")[0] == base or re.fullmatch(re.escape(base) + r"\$\d+", nm.split("[")[0])})
            if len(cands) != 1:
                cands = [base]
        else:
            cands = [nm for (w_, nm) in re.findall(r"^\s*wire (?:width (\d+) )?(?:input|output|inout) \d+\s+\\(\S+)$", mt.group(1), re.M)
                     if int(w_ or 1) == pw and (nm == base or re.fullmatch(re.escape(base) + r"\$\d+", nm))]
            if len(cands) != 1:
                raise Violation("platform_port_missing_from_netlist", -1, {"port": base, "width": pw, "candidates": cands})
        if cands[0] != base:
            def ren(k):
                if isinstance(k, str) and (k == base or k.startswith(base + "[")):
                    return cands[0] + k[len(base):]
                return k
            expect_loc = {ren(k): v for k, v in expect_loc.items()}
            if ext in (".pcf+sdc", ".pcf+symbiflow"):
                # (the SymbiFlow .sdc files name every clock by its ASCII-escaped name: `$` is written `_24_`)
                expect_clk = {re.sub(r"[^A-Za-z0-9_]", lambda c_: "_%02x_" % ord(c_.group(0)), ren(k)) if ren(k) != k else k: v
                              for k, v in expect_clk.items()}
            else:
                expect_clk = {ren(k): v for k, v in expect_clk.items()}
            if stats is not None:
                stats["probes"]["platform_port_renamed_by_collision"] = stats["probes"].get("platform_port_renamed_by_collision", 0) + 1
        if stats is not None:
            stats["probes"]["port_name_collision"] = stats["probes"].get("port_name_collision", 0) + 1
    seen = {}
    for name, pin in locs:
        if name in seen:
            raise Violation("port_bit_bound_twice", -1, {"port": name, "pins": [seen[name], pin]})
        seen[name] = pin
        if name in expect_loc:
            if pin != expect_loc[name]:
                raise Violation("wrong_pin", -1, {"port": name, "pin": pin, "declared": expect_loc[name]})
        elif name in optional_loc:
            if pin != optional_loc[name]:
                raise Violation("wrong_pin", -1, {"port": name, "pin": pin, "declared": optional_loc[name]})
        else:
            raise Violation("constraint_for_ungranted_port", -1, {"port": name, "pin": pin})
    for name, pin in expect_loc.items():
        if name not in seen:
            raise Violation("used_port_bit_unbound", -1, {"port": name, "declared": pin})
    # the negative leg of a differential pair: some vendor flows place it from the positive one and give it no line, others make it
    # a port of the netlist like any other - then it is a used top-level port bit and needs its pin
    il0 = plan.files.get("top.il", "")
    il0 = il0.decode() if isinstance(il0, bytes) else il0
    mtop = re.search(r"^module \\top$(.*?)^end$", il0, re.M | re.S)
    if mtop is not None and config["family"] in ("gowin", "xray"):
        top_ports = set(re.findall(r"^\s*wire (?:width \d+ )?(?:input|output|inout) \d+\s+\\(\S+)$", mtop.group(1), re.M))
        for name, pin in optional_loc.items():
            if isinstance(name, str) and name.split("[")[0].endswith("__n") and name.split("[")[0] in top_ports and name not in seen:
                raise Violation("used_port_bit_unbound", -1, {"port": name, "declared": pin, "leg": "negative, a port of the netlist"})
    pins_seen = {}
    for name, pin in locs:
        if pin in pins_seen:
            raise Violation("pin_bound_twice", -1, {"pin": pin, "ports": [pins_seen[pin], name]})
        pins_seen[pin] = name
    if ext not in (".cst", ".xdc", ".qsf") and not config.get("osc_clk"):   # (the Apicula, X-Ray and Mistral templates carry no clock constraints)
        if len(set(CLOCK_NAMES)) < len(CLOCK_NAMES):
            # a second create_clock of the same -name replaces the first one: the earlier clock is left unconstrained
            dup = sorted(n_ for n_ in set(CLOCK_NAMES) if CLOCK_NAMES.count(n_) > 1)
            raise Violation("clock_name_reused", -1, {"names": dup, "family": config["family"]})
        cseen = {}
        for name, hz in freqs:
            if name in cseen:
                raise Violation("clock_constrained_twice", -1, {"port": name})
            cseen[name] = hz
            exp = expect_clk.get(name, optional_loc.get(("clk", name)))
            if exp is None:
                # a constrained internal net: named by the path (below the top module) of a module in which it exists
                ent = next((e for e in expect_net if name in e[0] and not e[2]), None)
                if ent is not None:
                    ent[2] = True
                    exp = ent[1]
                    il_text = plan.files.get("top.il", "")
                    il_text = il_text.decode() if isinstance(il_text, bytes) else il_text
                    *scope, leaf_ = name.split(".")
                    modname = ".".join(["top"] + scope)
                    mm = re.search(r"^module \\" + re.escape(modname) + r"$(.*?)^end$", il_text, re.M | re.S)
                    if not il_text:
                        pass        # (this toolchain's plan carries no RTLIL netlist to look the net up in)
                    elif mm is None or not re.search(r"^\s*wire [^\n]*\\" + re.escape(leaf_) + r"$", mm.group(1), re.M):
                        raise Violation("clock_names_missing_net", -1, {"name": name, "module": modname})
            if exp is None:
                raise Violation("clock_for_undeclared_port", -1, {"port": name, "hz": hz})
            if abs(hz - exp) > 1e-6 * exp:
                raise Violation("wrong_clock_frequency", -1, {"port": name, "hz": hz, "declared": exp})
        for names_, hz_, matched in expect_net:
            if not matched:
                raise Violation("declared_clock_missing", -1, {"net": names_, "declared": hz_})
        for name, hz in expect_clk.items():
            if name not in cseen:
                raise Violation("declared_clock_missing", -1, {"port": name, "declared": hz})
            if stats is not None:
                stats["probes"]["clock_constraints"] += 1
    il = plan.files.get("top.il", "")
    if isinstance(il, bytes):
        il = il.decode()
    ports = sorted(l.strip() for l in il.splitlines() if re.match(r"\s*wire .*(input|output|inout) \d+", l))
    return outcomes, text, ports


def shared_dict_requests(config, stats):
    """Metamorphic: every resource with subsignals requested with dir={"s0": "-"} - once with one dictionary object shared by all
    requests, once with a fresh equal dictionary each time. What is granted, refused and returned (kind and direction of every
    member) must be the same: a request does not depend on what earlier requests did to the caller's arguments."""
    import warnings

    def describe(obj):
        if hasattr(obj, "direction"):
            return ["port", obj.direction.value, len(obj)]
        if hasattr(obj, "dir"):
            return ["pin", obj.dir, getattr(obj, "width", None)]
        fields = getattr(obj, "signature", None)
        if fields is not None and hasattr(fields, "members"):
            return {k: describe(getattr(obj, k)) for k in fields.members}
        return {k: describe(v) for k, v in vars(obj).items() if not k.startswith("_")} if hasattr(obj, "__dict__") else str(type(obj))

    def history(shared):
        plat, _ = make_platform(dict(config, default_clk=None, osc_clk=None))
        d_shared = {"s0": "-"}
        out = []
        for r in config["resources"]:
            if "subs" not in r:
                continue
            d = d_shared if shared else {"s0": "-"}
            try:
                with warnings.catch_warnings():
                    warnings.simplefilter("ignore")
                    obj = plat.request(r["name"], r["number"], dir=d)
                out.append(describe(obj))
            except Exception as e:
                out.append("refused:" + type(e).__name__)
        return out, d_shared
    a, d_after = history(True)
    b, _ = history(False)
    if len(a) >= 2:
        stats["probes"]["shared_dir_dict_histories"] = stats["probes"].get("shared_dir_dict_histories", 0) + 1
    if a != b:
        k = next(i for i, (x, y) in enumerate(zip(a, b)) if x != y)
        raise Violation("request_depends_on_earlier_requests_arguments", k, {"with_shared_dict": a[k], "with_fresh_dict": b[k],
                                                                            "shared_dict_after": {str(k_): str(v_) for k_, v_ in d_after.items()}})


def run_case(case):
    config = case["config"]
    res = Result()
    dig = Digest()
    stats = {"steps": len(case["steps"]), "edges": 0, "faults": {"refuse": 0},
             "probes": {"granted": 0, "connector_chain": 0, "diffpairs": 0, "clock_constraints": 0, "built": 0,
                        "legal_after_refusal": 0, "metamorphic_compared": 0}}

    def go():
        if sum(1 for r in config["resources"] if "subs" in r) >= 2:
            shared_dict_requests(config, stats)
        outcomes, text, ports = run_history(config, case["steps"], case["use_frac"], case["use_seed"], stats, net_clocks=case.get("net_clocks", ()))
        dig.add((outcomes, text))
        build1 = outcomes[len(case["steps"]):]
        req1 = outcomes[:len(case["steps"])]
        if any(o != "ok" for o in req1):
            # metamorphic atomicity oracle: the same history with the refused operations deleted
            kept = [op for op, o in zip(case["steps"], req1) if o == "ok"]
            o2, text2, ports2 = run_history(config, kept, case["use_frac"], case["use_seed"], net_clocks=case.get("net_clocks", ()))
            stats["probes"]["metamorphic_compared"] += 1
            if any(o != "ok" for o in o2[:len(kept)]):
                raise Violation("atomicity_outcomes", -1, {"outcomes_without_refused_ops": o2})
            if o2[len(kept):] != build1:
                raise Violation("atomicity_build_outcome", -1, {"with_refusals": build1, "without": o2[len(kept):]})
            if text2 != text:
                a, b = text.splitlines(), text2.splitlines()
                diff = [l for l in a if l not in b][:4] + ["--"] + [l for l in b if l not in a][:4]
                raise Violation("atomicity_constraint_file", -1, {"diff": diff})
            if ports2 != ports:
                raise Violation("atomicity_ports", -1, {"with_refusals": ports[:6], "without": ports2[:6]})

    run_guarded(res, go)
    nontrivial = stats["probes"]["granted"] > 0 and stats["faults"]["refuse"] > 0 and stats["probes"]["built"] > 0
    return finish(res, dig, stats, nontrivial)


def signature(case, violation):
    sig = {"oracle": violation["oracle"], "family": case["config"]["family"]}
    if violation["oracle"] == "exception":
        sig["exc"] = violation["detail"].get("type")
        sig["where"] = violation["detail"].get("where")
    return sig


def simplify(case):
    c = case["config"]
    used = {(op["name"], op["number"]) for op in case["steps"]}
    for i, r in enumerate(c["resources"]):
        if (r["name"], r["number"]) not in used:
            yield dict(case, config=dict(c, resources=c["resources"][:i] + c["resources"][i + 1:]))
            return
    if c["family"] != "ice40":
        yield dict(case, config=dict(c, family="ice40"))
    if case["use_frac"] != 1.0:
        yield dict(case, use_frac=1.0)
