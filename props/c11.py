"""C11  Memories behave as arrays of rows under any port configuration (simulator clause + RTLIL clause)."""
from dsim.rng import stream, Digest
from dsim.simdrv import ManualRun, Violation, DomainSpec
from dsim.runner import Result, finish, run_guarded

ID = "C11"
TITLE = "Memories behave as arrays of rows under any port configuration"
RULE = ("case = (row shape in {unsigned, signed, ArrayLayout, StructLayout} of width 0..12, depth in {0,1,2,3,5,8,9}, init list "
        "shorter than depth, 0..2 write ports (any domain, granularity None or a divisor), 0..3 read ports (comb or sync, any "
        "domain, any transparency subset of same-domain write ports), 1..2 clock domains of either edge, scheduler order, "
        "explicit step list over {port input writes, clock level changes alone or coincident, testbench row reads/writes}) "
        "with out-of-range addresses, address collisions between ports, read-enable gating, glitches and inactive edges; in a "
        "seeded fifth of the runs a user process patches a row and dies in the middle of a delta cycle (that of a clock event), "
        "Simulator.reset() follows and the whole history is replayed from the declared initial contents. "
        "Non-trivial = at least one port write and one defined read comparison happened and a fault kind fired; "
        "distinct = distinct SHA-256 of the observation trace.")
ASSUMPTIONS = [
    "Array-of-rows model with per-bit 'unknown' marks; unknown (not compared): reads beyond depth, bits written by two ports in "
    "the same instant, bits read in the same instant as a write from another clock domain, sync read data before its first "
    "enabled capture.",
    "Domain resets (sync and async, at arbitrary instants, in their own step) are applied and must have no effect: the storage "
    "and the read ports have no reset, and writes/captures happen at clock edges only.",
    "Port inputs change only between edges.",
    "Crash/restart: nothing of a run aborted by an exception (queued port writes, the dying process's own row write) survives "
    "Simulator.reset(); every row is read back directly at the end of every run.",
]
COMPONENTS = {"real": ["amaranth.lib.memory.Memory/ReadPort/WritePort", "amaranth.hdl._mem.MemoryInstance/MemoryData",
                       "amaranth.sim (_pyrtl memory processes, _PyMemoryState, _pyeval row access)", "amaranth.lib.data layouts"],
              "stub": ["PermSet scheduler seam", "clock driver", "array-of-rows model"]}
EXPECTED_PROBES = ("crash", "coincide", "oob", "gate", "glitch-in", "inactive", "transparent_patch", "nontransparent_collision",
                   "two_port_conflict", "cross_domain_collision", "row_rd", "row_wr", "granular_write", "rtlil_compared_bits")

DEPTHS = [0, 1, 2, 3, 5, 8, 9]


def _divisors(n):
    return [d for d in range(1, n + 1) if n % d == 0]


def gen_case(seed, tier):
    cfg = stream(seed, "cfg")
    wl = stream(seed, "workload")
    fl = stream(seed, "faults")
    sc = stream(seed, "sched")
    kind = cfg.choice(["unsigned", "unsigned", "signed", "array", "struct", "enum"])
    if kind == "enum":
        # rows shaped by an enumeration over a signed shape with negative members (any bit pattern may be stored)
        width = cfg.choice([2, 3, 4])
        shape = {"kind": "enum", "width": width}
    elif kind in ("unsigned", "signed"):
        width = cfg.choice([0, 1, 2, 3, 4, 6, 8, 12]) if kind == "unsigned" else cfg.choice([1, 2, 3, 4, 8])
        shape = {"kind": kind, "width": width}
    elif kind == "array":
        ew = cfg.choice([1, 2, 3, 4])
        ln = cfg.choice([0, 1, 2, 3, 4])
        shape = {"kind": "array", "elem": ew, "len": ln}
        width = ew * ln
    else:
        fields = [cfg.choice([1, 2, 3, 4]) for _ in range(cfg.randint(1, 3))]
        # field kinds: unsigned, signed, or an enumeration over a signed shape (width >= 2)
        fkinds = [cfg.choice(["u", "u", "s", "e"] if w >= 2 else ["u", "u", "s"]) for w in fields]
        shape = {"kind": "struct", "fields": fields, "fkinds": fkinds}
        width = sum(fields)
        if cfg.random() < 0.4:
            # a data.Struct class whose fields have default values: rows that `init` does not list start with the defaults, not 0
            shape["defaults"] = [cfg.choice([(1 << (w - 1)), (1 << w) - 1, 0, 1]) if fk == "e" else cfg.randrange(1 << w)
                                 for w, fk in zip(fields, fkinds)]
    depth = cfg.choice(DEPTHS)
    ninit = cfg.randint(0, depth)
    init = [cfg.randrange(1 << width) for _ in range(ninit)]
    if kind == "enum":
        members = [(1 << (width - 1)), (1 << width) - 1, 0, 1]       # bit patterns of NEG, MINUS_ONE, ZERO, ONE
        init = [cfg.choice(members) for _ in range(ninit)]
    if kind == "struct" and "e" in fkinds:
        # initial rows must hold members in their enumeration fields
        def fix(raw):
            off = 0
            for w, fk in zip(fields, fkinds):
                if fk == "e":
                    raw = (raw & ~(((1 << w) - 1) << off)) | (cfg.choice([(1 << (w - 1)), (1 << w) - 1, 0, 1]) << off)
                off += w
            return raw
        init = [fix(v) for v in init]
    ndom = cfg.choice([1, 1, 2])
    doms = [{"name": n, "edge": cfg.choice(["pos", "neg"]), "async": cfg.random() < 0.3} for n in ("a", "b")[:ndom]]
    wports = []
    for _ in range(cfg.choice([0, 1, 1, 2, 2])):
        g = None
        if kind == "unsigned" and width > 0 and cfg.random() < 0.6:
            g = cfg.choice(_divisors(width))
        if kind == "array" and shape["len"] > 0 and cfg.random() < 0.6:
            g = cfg.choice(_divisors(shape["len"]))
        wports.append({"domain": cfg.choice(doms)["name"], "granularity": g})
    rports = []
    for _ in range(cfg.choice([0, 1, 1, 2, 3])):
        dom = cfg.choice(["comb"] + [d["name"] for d in doms] * 2)
        tf = []
        if dom != "comb":
            tf = [i for i, w in enumerate(wports) if w["domain"] == dom and cfg.random() < 0.6]
            if tf and cfg.random() < 0.2:
                tf = tf + [tf[0]]         # the transparency set given as an iterable that names a port twice
        rports.append({"domain": dom, "transparent_for": tf})
    wrap = []
    nctl = 0
    if cfg.random() < 0.35:
        for _ in range(cfg.randint(1, 3)):
            kind_w = cfg.choice(["enable", "enable", "reset", "rename"])
            if kind_w == "rename":
                if ndom == 2:
                    a_, b_ = cfg.sample(["a", "b"], 2)
                    # a one-way rename, or a swap (every target is also a source: the mapping must be applied simultaneously)
                    wrap.append(["rename", {a_: b_} if cfg.random() < 0.5 else {a_: b_, b_: a_}])
            elif cfg.random() < 0.25:
                wrap.append(["enable_nrst", cfg.choice(doms)["name"]])
            else:
                wrap.append([kind_w, cfg.choice(doms)["name"], nctl])
                nctl += 1
    config = {"shape": shape, "depth": depth, "init": init, "domains": doms, "wports": wports, "rports": rports, "wrap": wrap}
    # an inserter's control wider than one bit: asserted when non-zero, for the memory's ports as for any register
    config["decoy"] = fl.choice([0, 0, 1, 2, 3])       # another memory, with that many write ports, before this one in its module
    config["ctl_wide"] = ctl_wide = [k for k in range(nctl) if cfg.random() < 0.25]
    config["ctl_signed"] = [k for k in range(nctl) if k not in ctl_wide and cfg.random() < 0.15]      # signed(1): asserted when -1

    aw = max(0, (depth - 1).bit_length()) if depth > 0 else 0
    nsteps = cfg.randint(20, 160) if tier == "quick" else cfg.randint(20, 800)
    hot = [wl.randrange(max(1, depth)) for _ in range(2)]
    p_oob = fl.choice([0.0, 0.1, 0.3])
    p_row = fl.choice([0.0, 0.05, 0.2])
    p_coin = fl.choice([0.0, 0.2, 0.6]) if ndom == 2 else 0.0

    def addr():
        r = wl.random()
        if r < p_oob and (1 << aw) > depth:
            return wl.randrange(depth, 1 << aw)
        if r < 0.6:
            return wl.choice(hot)
        return wl.randrange(1 << aw)

    def en_width(wp):
        g = wp["granularity"]
        if g is None:
            return 1
        if kind == "unsigned":
            return width // g
        return shape["len"] // g

    levels = {d["name"]: 0 for d in doms}
    rlv = {d["name"]: 0 for d in doms}
    p_rst = fl.choice([0.0, 0.0, 0.05, 0.15])
    steps = []
    while len(steps) < nsteps:
        for _ in range(wl.choice([0, 1, 1, 2, 3, 5])):
            r = wl.random()
            if r < p_row:
                if wl.random() < 0.5:
                    # (the value given to ctx.set() may lie outside the row's range: it wraps, as for a signal)
                    steps.append({"k": "row_wr", "a": wl.randrange(max(1, depth)), "v": wl.randrange(1 << width),
                                  "wrap": wl.choice([0, 0, 0, 1, -1])})
                else:
                    steps.append({"k": "row_rd", "a": wl.randrange(max(1, depth))})
                if wl.random() < 0.25:
                    steps.append({"k": "row_wr_refused", "a": wl.randrange(max(1, depth)), "v": wl.randrange(1 << 30)})
                continue
            cands = [("ctl%d" % k, None) for k in range(nctl)]
            for i, wp in enumerate(wports):
                cands += [("w%d.addr" % i, None), ("w%d.data" % i, None), ("w%d.en" % i, wp)]
            for i, rp in enumerate(rports):
                cands.append(("r%d.addr" % i, None))
                if rp["domain"] != "comb":
                    cands.append(("r%d.en" % i, None))
            if not cands:
                break
            name, wp = wl.choice(cands)
            if name.endswith(".addr"):
                v = addr()
            elif name.endswith(".data"):
                v = wl.randrange(1 << width)
            elif name.startswith("ctl"):
                v = int(wl.random() < 0.7)
                if v and int(name[3:]) in ctl_wide:
                    v = wl.choice([1, 2, 3, 2])
            elif name[0] == "w":
                ew = en_width(wp)
                v = wl.choice([0, (1 << ew) - 1, wl.randrange(1 << ew), (1 << ew) - 1])
            else:
                v = int(wl.random() < 0.75)
            steps.append({"k": "set", "p": name, "v": v})
        names = [d["name"] for d in doms]
        which = names if (len(names) == 2 and wl.random() < p_coin) else [wl.choice(names)]
        ch = {}
        for n in which:
            levels[n] ^= 1
            ch[n] = levels[n]
        steps.append({"k": "ev", "l": ch})
        if p_rst and fl.random() < p_rst:
            # a domain reset at an arbitrary instant (its own step): storage and read ports have no reset, so nothing may happen
            dn = fl.choice(sorted(rlv))
            rlv[dn] ^= 1
            steps.append({"k": "rst", "l": {dn: rlv[dn]}})
    return {"config": config, "sched": {"mode": sc.choice(["seeded", "seeded", "reverse", "insertion"]),
                                        "seed": sc.randrange(1 << 32)}, "steps": steps, "rtlil": sc.random() < 0.3,
            "crash": ({"at": fl.randrange(max(1, len(steps))), "a": fl.randrange(max(1, depth)), "v": fl.randrange(1 << width)}
                      if fl.random() < 0.2 else None)}


def shape_width(shape):
    if shape["kind"] in ("unsigned", "signed", "enum"):
        return shape["width"]
    if shape["kind"] == "array":
        return shape["elem"] * shape["len"]
    return sum(shape["fields"])


def _mk_enum(aenum, signed, w):
    class E(aenum.Enum, shape=signed(w)):
        NEG = -(1 << (w - 1))
        MINUS_ONE = -1
        ZERO = 0
        ONE = 1
    return E


def build(config):
    from amaranth.hdl import unsigned, signed
    from amaranth.lib import data
    from amaranth.lib.memory import Memory
    sh = config["shape"]
    width = shape_width(sh)

    def to_signed(v, w):
        return v - (1 << w) if w and v >> (w - 1) else v

    if sh["kind"] == "unsigned":
        shape = unsigned(width)
        conv = lambda raw: raw
    elif sh["kind"] == "signed":
        shape = signed(width)
        conv = lambda raw: to_signed(raw, width)
    elif sh["kind"] == "enum":
        from amaranth.lib import enum as aenum

        class E(aenum.Enum, shape=signed(width)):
            NEG = -(1 << (width - 1))
            MINUS_ONE = -1
            ZERO = 0
            ONE = 1
        shape = E
        conv = lambda raw: E(to_signed(raw, width))
    elif sh["kind"] == "array":
        shape = data.ArrayLayout(unsigned(sh["elem"]), sh["len"])
        conv = lambda raw: [(raw >> (i * sh["elem"])) & ((1 << sh["elem"]) - 1) for i in range(sh["len"])]
    else:
        from amaranth.lib import enum as aenum
        fk = sh.get("fkinds") or ["u"] * len(sh["fields"])
        enums = {}
        for i, w in enumerate(sh["fields"]):
            if fk[i] == "e":
                enums[i] = _mk_enum(aenum, signed, w)
        fields = {"f%d" % i: (unsigned(w) if fk[i] == "u" else signed(w) if fk[i] == "s" else enums[i])
                  for i, w in enumerate(sh["fields"])}
        shape = data.StructLayout(fields)
        if sh.get("defaults"):
            ns = {"__annotations__": dict(fields)}
            for i, w in enumerate(sh["fields"]):
                dv = sh["defaults"][i]
                ns["f%d" % i] = dv if fk[i] == "u" else (to_signed(dv, w) if fk[i] == "s" else enums[i](to_signed(dv, w)))
            shape = type("RowStruct", (data.Struct,), ns)
        def conv(raw):
            d = {}
            off = 0
            for i, w in enumerate(sh["fields"]):
                v = (raw >> off) & ((1 << w) - 1)
                d["f%d" % i] = v if fk[i] == "u" else (to_signed(v, w) if fk[i] == "s" else enums[i](to_signed(v, w)))
                off += w
            return d
    mem = Memory(shape=shape, depth=config["depth"], init=[conv(v) for v in config["init"]])
    wps = [mem.write_port(domain=w["domain"], granularity=w["granularity"]) for w in config["wports"]]
    rps = [mem.read_port(domain=r["domain"], transparent_for=[wps[i] for i in r["transparent_for"]])
           for r in config["rports"]]
    return mem, wps, rps


def with_decoy(config, dut):
    """`dut` preceded, in the same module, by another memory with write ports of its own (idle): whatever numbering the backend
    gives to ports must be per memory"""
    n = config.get("decoy")
    if not n:
        return dut
    from amaranth.hdl import Module, Elaboratable
    from amaranth.lib.memory import Memory
    decoy = Memory(shape=3, depth=2, init=[5])
    dn = config["domains"][0]["name"]
    for _ in range(n):
        decoy.write_port(domain=dn)
    decoy.read_port(domain="comb")

    class Both(Elaboratable):
        def elaborate(self, platform):
            m = Module()
            m.submodules.decoy = decoy
            m.submodules.dut = dut
            return m
    return Both()


def default_row_of(config):
    """bit pattern of a row that `init` does not list: the defaults of a data.Struct's fields, else 0"""
    v = off = 0
    for w, dv in zip(config["shape"].get("fields") or [], config["shape"].get("defaults") or []):
        v |= dv << off
        off += w
    return v


def build_dut(config):
    """-> (dut, mem, wps, rps, ctls): the memory wrapped in the configured Enable/Reset inserters and renamers"""
    from amaranth.hdl import Signal, EnableInserter, ResetInserter, DomainRenamer
    mem, wps, rps = build(config)
    dut = mem
    ctls = {}
    for w in config.get("wrap", []):
        if w[0] == "rename":
            dmap_ = dict(w[1])
            dut = DomainRenamer(dmap_)(dut)
            dmap_.clear()         # (the caller's dictionary may be reused or emptied afterwards)
        elif w[0] == "enable_nrst":
            from amaranth.hdl import ResetSignal
            dut = EnableInserter({w[1]: ~ResetSignal(w[1])})(dut)
        else:
            from amaranth.hdl import signed as _signed
            c = ctls.setdefault(w[2], Signal(_signed(1) if w[2] in config.get("ctl_signed", []) else
                                             2 if w[2] in config.get("ctl_wide", []) else 1, name="ctl%d" % w[2]))
            dut = (EnableInserter if w[0] == "enable" else ResetInserter)({w[1]: c})(dut)
    return dut, mem, wps, rps, ctls


def port_eff(config, dom):
    """-> (effective domain, [enable-control indices gating the port])  (inside-out along the wrapper list)"""
    cur = dom
    gates = []
    if dom == "comb":
        return cur, gates
    for w in config.get("wrap", []):
        if w[0] == "rename":
            cur = w[1].get(cur, cur)
            # a late-bound reset used as a control further in moves with its domain
            gates = [["nrst", w[1].get(g[1], g[1])] if isinstance(g, list) else g for g in gates]
        elif w[0] == "enable" and w[1] == cur:
            gates.append(w[2])
        elif w[0] == "enable_nrst" and w[1] == cur:
            gates.append(["nrst", cur])        # enabled while the (late-bound) reset of the domain, as named here, is low
    return cur, gates


class CrashInjected(Exception):
    pass


def granule_bits(config, wp):
    """List of bit masks, one per enable bit."""
    sh = config["shape"]
    width = shape_width(sh)
    g = wp["granularity"]
    if g is None:
        return [(1 << width) - 1]
    gb = g if sh["kind"] == "unsigned" else g * sh["elem"]
    n = width // gb if gb else 0
    return [((1 << gb) - 1) << (i * gb) for i in range(n)]


def run_case(case):
    from amaranth.hdl import Value
    config = case["config"]
    depth = config["depth"]
    width = shape_width(config["shape"])
    full = (1 << width) - 1
    dut, mem, wps, rps, ctls = build_dut(config)
    weff = [port_eff(config, w["domain"]) for w in config["wports"]]
    reff = [port_eff(config, r["domain"]) for r in config["rports"]]
    res = Result()
    dig = Digest()
    stats = {"steps": 0, "edges": 0, "faults": {"coincide": 0, "oob": 0, "gate": 0, "glitch-in": 0, "inactive": 0},
             "probes": {"transparent_patch": 0, "nontransparent_collision": 0, "two_port_conflict": 0,
                        "cross_domain_collision": 0, "row_rd": 0, "row_wr": 0, "granular_write": 0, "port_writes": 0,
                        "read_compares": 0, "rtlil_compared_bits": 0, "rtlil_undefined_bits_skipped": 0}}
    P, F = stats["probes"], stats["faults"]
    domains = [DomainSpec(d["name"], edge=d["edge"], async_reset=d.get("async", False)) for d in config["domains"]]
    act = {d["name"]: (1 if d["edge"] == "pos" else 0) for d in config["domains"]}
    crash = case.get("crash") if depth > 0 else None
    armed = [bool(crash)]
    procs, extra_lines = [], None
    if crash:
        # crash at an arbitrary point: a user process that, woken in the middle of a delta cycle (possibly the one of a clock
        # edge, before or after the write ports queued their writes), patches a row and dies; Simulator.reset() follows
        from amaranth.hdl import Signal
        crash_sig = Signal(name="verif_crash")
        extra_lines = {"crash": crash_sig}

        async def crasher(ctx):
            if not armed[0]:
                return
            await ctx.posedge(crash_sig)
            ctx.set(Value.cast(mem.data[crash["a"] % depth]), 0)
            ctx.set(Value.cast(mem.data[crash["a"] % depth]), crash["v"] & full if config["shape"]["kind"] not in ("signed", "enum") else 0)
            raise CrashInjected()
        procs = [crasher]
    dut = with_decoy(config, dut)
    run = ManualRun(dut, domains, sched_mode=case["sched"]["mode"], sched_seed=case["sched"]["seed"], extra_lines=extra_lines,
                    processes=procs)
    gmasks = [granule_bits(config, w) for w in config["wports"]]

    def raw(v):
        return v & full

    def body(drv):
        sigs = {}
        for i, p in enumerate(wps):
            sigs["w%d.addr" % i] = p.addr
            sigs["w%d.data" % i] = Value.cast(p.data)
            sigs["w%d.en" % i] = p.en
        for i, p in enumerate(rps):
            sigs["r%d.addr" % i] = p.addr
            if config["rports"][i]["domain"] != "comb":
                sigs["r%d.en" % i] = p.en
        for k, c in ctls.items():
            sigs["ctl%d" % k] = c
        inp = {n: raw(drv.get(s)) if n.endswith(".data") else drv.get(s) for n, s in sigs.items()}

        rst_lv = {d["name"]: 0 for d in config["domains"]}

        def gated(gates):
            return all((not rst_lv[g[1]]) if isinstance(g, list) else inp["ctl%d" % g] for g in gates)
        rdata = [Value.cast(p.data) for p in rps]
        default_row = default_row_of(config)
        if len(config["init"]) < depth and default_row:
            P["rows_started_at_struct_defaults"] = 1
        rows = [[(config["init"][a] if a < len(config["init"]) else default_row), full] for a in range(depth)]   # [value, known]
        rreg = [[0, 0] for _ in rps]          # sync read registers: [value, known]
        lv = {d["name"]: 0 for d in config["domains"]}
        sets_since = 0

        def compare(step):
            obs = []
            for i, rp in enumerate(config["rports"]):
                got = raw(drv.get(rdata[i]))
                if rp["domain"] == "comb":
                    a = inp["r%d.addr" % i]
                    if a < depth:
                        val, known = rows[a]
                    else:
                        val, known = 0, 0
                else:
                    val, known = rreg[i]
                if known:
                    P["read_compares"] += 1
                if (got ^ val) & known:
                    raise Violation("read_data", step, {"port": i, "domain": rp["domain"], "got": got, "expected": val,
                                                        "known_mask": known, "addr": inp["r%d.addr" % i]})
                obs.append(got & known)
            return obs

        compare(-1)
        for idx, st in enumerate(case["steps"]):
            drv.begin_step(idx)
            stats["steps"] += 1
            k = st["k"]
            if k == "set":
                name = st["p"]
                if name in sigs:
                    v = st["v"] & ((1 << len(sigs[name])) - 1)
                    if name.endswith(".addr") and v >= depth:
                        F["oob"] += 1
                    if name.endswith(".en") and name[0] == "r" and v == 0:
                        F["gate"] += 1
                    if inp[name] != v:
                        inp[name] = v
                        drv.set(sigs[name], v)
                    sets_since += 1
                    if sets_since == 4:
                        F["glitch-in"] += 1
            elif k == "rst":
                ch = {n + ".rst": lvl for n, lvl in st["l"].items() if n in lv}
                for n, lvl in st["l"].items():
                    if n in rst_lv:
                        rst_lv[n] = lvl
                if ch:
                    F["reset"] = F.get("reset", 0) + 1
                    if any(d.get("async") and st["l"].get(d["name"]) for d in config["domains"]):
                        P["async_reset_rise"] = P.get("async_reset_rise", 0) + 1
                    drv.drive(ch)
            elif k == "row_wr":
                if st["a"] < depth:
                    v = st["v"] & full
                    row = Value.cast(mem.data[st["a"]])
                    sv = v - (1 << width) if (config["shape"]["kind"] in ("signed", "enum") and width and v >> (width - 1)) else v
                    if st.get("wrap") and width:
                        sv += st["wrap"] << width
                        P["row_wr_out_of_range_value"] = P.get("row_wr_out_of_range_value", 0) + 1
                    drv.set(row, sv)
                    rows[st["a"]] = [v, full]
                    P["row_wr"] += 1
            elif k == "row_wr_refused":
                # a testbench write to a row *and* a combinationally driven signal (the data of an asynchronous read port) in one
                # assignment: refused as a whole - the row keeps its contents
                comb_rp = [i for i, rp in enumerate(config["rports"]) if rp["domain"] == "comb" and len(rdata[i])]
                if st["a"] < depth and comb_rp and width:
                    from amaranth.hdl import Cat as _Cat
                    tgt = _Cat(Value.cast(mem.data[st["a"]]), rdata[comb_rp[0]])
                    try:
                        drv.set(tgt, st["v"] & ((1 << len(tgt)) - 1))
                    except Exception as e_:
                        if type(e_).__name__ != "DriverConflict":
                            raise
                        P["refused_row_write"] = P.get("refused_row_write", 0) + 1
                    else:
                        raise Violation("write_to_comb_driven_signal_accepted", idx, {"addr": st["a"]})
            elif k == "row_rd":
                if st["a"] < depth:
                    got0 = drv.get(Value.cast(mem.data[st["a"]]))
                    signed_row = config["shape"]["kind"] in ("signed", "enum")
                    lo_, hi_ = (-(1 << (width - 1)) if width else 0, (1 << (width - 1)) - 1 if width else 0) if signed_row else (0, full)
                    if not (lo_ <= got0 <= hi_):
                        raise Violation("row_read_out_of_range", idx, {"addr": st["a"], "got": got0, "row_shape": config["shape"]})
                    got = raw(got0)
                    val, known = rows[st["a"]]
                    P["row_rd"] += 1
                    if (got ^ val) & known:
                        raise Violation("row_read", idx, {"addr": st["a"], "got": got, "expected": val, "known_mask": known})
            else:
                changes = {}
                active = set()
                if armed[0] and idx >= crash["at"]:
                    changes["crash"] = 1
                for n, lvl in st["l"].items():
                    if n in lv and lv[n] != lvl:
                        lv[n] = lvl
                        changes[n + ".clk"] = lvl
                        stats["edges"] += 1
                        if lvl == act[n]:
                            active.add(n)
                if len(changes) == 2:
                    F["coincide"] += 1
                if changes and not active:
                    F["inactive"] += 1
                if changes:
                    drv.drive(changes)
                if active:
                    sets_since = 0
                    # writes of this instant (pre-edge inputs)
                    writes = []     # (port index, domain, addr, bitmask, data)
                    for i, wp in enumerate(config["wports"]):
                        if weff[i][0] not in active:
                            continue
                        en = inp["w%d.en" % i] if gated(weff[i][1]) else 0
                        if weff[i][1] and not gated(weff[i][1]):
                            P["inserted_enable_gated_write"] = P.get("inserted_enable_gated_write", 0) + 1
                        bm = 0
                        for b, gm in enumerate(gmasks[i]):
                            if (en >> b) & 1:
                                bm |= gm
                        if len(gmasks[i]) > 1 and en not in (0, (1 << len(gmasks[i])) - 1):
                            P["granular_write"] += 1
                        a = inp["w%d.addr" % i]
                        if en and a < depth:
                            writes.append((i, weff[i][0], a, bm, inp["w%d.data" % i]))
                            P["port_writes"] += 1
                    # sync read captures (pre-edge rows)
                    newreg = {}
                    for i, rp in enumerate(config["rports"]):
                        if rp["domain"] == "comb" or reff[i][0] not in active:
                            continue
                        if not (inp["r%d.en" % i] and gated(reff[i][1])):
                            continue
                        a = inp["r%d.addr" % i]
                        if a >= depth:
                            newreg[i] = [0, 0]
                            continue
                        val, known = rows[a]
                        patched = opaque = 0
                        for (wi, wd, wa, bm, wdata) in writes:          # (in the order of the write ports)
                            if wa != a or not bm:
                                continue
                            if wd != reff[i][0]:
                                known &= ~bm            # write from another clock in the same instant: undefined
                                P["cross_domain_collision"] += 1
                            elif wi in rp["transparent_for"]:
                                # "captured with the new data": what the row holds after the edge - when two ports of the
                                # transparency set write the same granule, that is the later port's data, in whatever order the
                                # set was given
                                if patched & bm:
                                    P["two_transparent_ports_one_granule"] = P.get("two_transparent_ports_one_granule", 0) + 1
                                val = (val & ~bm) | (wdata & bm)
                                known |= bm
                                patched |= bm
                                P["transparent_patch"] += 1
                            else:
                                opaque |= bm
                                P["nontransparent_collision"] += 1
                        # a granule written both by a port of the transparency set and by one outside it: not judged
                        known &= ~(patched & opaque)
                        newreg[i] = [val & full, known & full]
                    # commit writes
                    touched = {}
                    for (wi, wd, wa, bm, wdata) in writes:          # (in the order of the write ports: the later port wins)
                        val, known = rows[wa]
                        by_dom = touched.setdefault(wa, {})
                        other = 0
                        for d_, bits_ in by_dom.items():
                            if d_ != wd:
                                other |= bits_
                            elif bits_ & bm:
                                P["two_port_conflict"] += 1
                        val = (val & ~bm) | (wdata & bm)
                        # written from two clocks in one instant: either value (the emitted RTLIL gives no priority across clocks)
                        known = (known | bm) & ~(other & bm)
                        rows[wa] = [val & full, known & full]
                        by_dom[wd] = by_dom.get(wd, 0) | bm
                    for wa, by_dom in touched.items():
                        # ... and they stay unknown even if a later write of the first clock re-marked them
                        doms_ = list(by_dom.items())
                        for x_ in range(len(doms_)):
                            for y_ in range(x_ + 1, len(doms_)):
                                both = doms_[x_][1] & doms_[y_][1]
                                if both:
                                    rows[wa][1] &= ~both
                    for i, v in newreg.items():
                        rreg[i] = v
            obs = compare(idx)
            dig.add((k, sorted(lv.items()), obs))
        # final state: every row, read directly
        for a in range(depth):
            got = raw(drv.get(Value.cast(mem.data[a])))
            val, known = rows[a]
            if (got ^ val) & known:
                raise Violation("row_read", len(case["steps"]), {"addr": a, "got": got, "expected": val, "known_mask": known,
                                                                 "when": "final state"})

    def go():
        try:
            run.run(body)
        except CrashInjected:
            # restart: Simulator.reset() on the simulator that died in the middle of a delta cycle, then the whole history again
            # from the declared initial contents; nothing of the aborted run may survive
            F["crash"] = F.get("crash", 0) + 1
            armed[0] = False
            dig.restart()
            run.rerun(body)
    run_guarded(res, go)
    stats["decisions"] = run.decisions
    if res.violation is None and res.harness_error is None and depth > 0 and case.get("restart", True):
        # restart: a second simulator over the very same design object must find the declared initial contents
        # (storage written in the first run must not leak into the design's init)
        run2 = ManualRun(dut, domains, sched_mode="insertion", sched_seed=0)

        def body2(drv):
            for a in range(depth):
                got = raw(drv.get(Value.cast(mem.data[a])))
                want = config["init"][a] if a < len(config["init"]) else default_row_of(config)
                if got != want:
                    raise Violation("initial_contents_after_restart", len(case["steps"]),
                                    {"addr": a, "got": got, "declared": want})
            P["restart_checked"] = P.get("restart_checked", 0) + 1
        run_guarded(res, lambda: run2.run(body2))
    if case.get("rtlil") and res.violation is None:
        # RTLIL clause: the emitted memory cells, executed by the RTLIL interpreter under the same port/clock steps
        from props import c04
        st2 = {"steps": 0, "edges": 0, "faults": {"coincide": 0, "srst": 0}, "probes": {"compared_bits": 0, "undefined_bits_skipped": 0,
                                                                          "memory_design": 0}}
        c = dict(case, steps=[s for s in case["steps"] if s["k"] in ("set", "ev", "rst")])
        run_guarded(res, lambda: c04.run_memory(c, res, st2))
        P["rtlil_compared_bits"] = st2["probes"]["compared_bits"]
        P["rtlil_undefined_bits_skipped"] = st2["probes"]["undefined_bits_skipped"]
    dig.add_events(run.events)
    nontrivial = P["port_writes"] > 0 and P["read_compares"] > 0 and any(F.values())
    return finish(res, dig, stats, nontrivial)


def signature(case, violation):
    c = case["config"]
    sig = {"oracle": violation["oracle"], "shape": c["shape"]["kind"], "depth": c["depth"]}
    if violation["oracle"] == "exception":
        sig["exc"] = violation["detail"].get("type")
        sig["where"] = violation["detail"].get("where")
    return sig


def simplify(case):
    c = case["config"]
    # drop a read port / write port that is not needed
    for i in range(len(c["rports"]) - 1, -1, -1):
        rp = [r for j, r in enumerate(c["rports"]) if j != i]
        def fix(name):
            if name[0] == "r":
                j = int(name[1:name.index(".")])
                if j == i:
                    return None
                if j > i:
                    return "r%d%s" % (j - 1, name[name.index("."):])
            return name
        steps = []
        for s in case["steps"]:
            if s["k"] == "set":
                n = fix(s["p"])
                if n is None:
                    continue
                s = dict(s, p=n)
            steps.append(s)
        yield dict(case, config=dict(c, rports=rp), steps=steps)
    for d in c["domains"]:
        if d["edge"] != "pos":
            steps = []
            for s in case["steps"]:
                if s["k"] == "ev" and d["name"] in s["l"]:
                    s = {"k": "ev", "l": dict(s["l"], **{d["name"]: 1 - s["l"][d["name"]]})}
                steps.append(s)
            doms = [dict(x, edge="pos") if x["name"] == d["name"] else x for x in c["domains"]]
            yield dict(case, config=dict(c, domains=doms), steps=steps)
    if c["init"]:
        yield dict(case, config=dict(c, init=[]))
    for i, s in enumerate(case["steps"]):
        if s["k"] == "ev" and len(s["l"]) == 2:
            steps = list(case["steps"])
            steps[i:i + 1] = [{"k": "ev", "l": {n: v}} for n, v in s["l"].items()]
            yield dict(case, steps=steps)
            break
