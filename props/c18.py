"""C18  I/O buffers apply direction, inversion and registering exactly per bit (simulated half)."""
from dsim.rng import stream, Digest
from dsim.simdrv import ManualRun, Violation, DomainSpec
from dsim.runner import Result, finish, run_guarded

ID = "C18"
TITLE = "I/O buffers apply direction, inversion and registering exactly per bit (simulated half)"
RULE = ("case = (1..2 base SimulationPorts of width 0..8 with per-bit inversion masks and any direction; a port expression "
        "built from slicing (incl. steps, negative indices, single bits), `+` and `~` using every base bit at most once; Buffer or "
        "FFBuffer of every legal direction, FFBuffer with i_domain/o_domain equal, different or defaulted; scheduler order; "
        "explicit step list over {writes to buffer o / oe and port-side i, level changes of the i_domain / o_domain / sync / "
        "foreign clocks, alone or coincident}). Non-trivial = an observable changed and a fault kind fired; "
        "distinct = distinct SHA-256 of the observation trace.")
ASSUMPTIONS = [
    "The simulated half of the statement is decided (Buffer/FFBuffer on SimulationPort and the port algebra). The clause about "
    "netlists for real I/O ports is a static structural fact; it rides along only as far as: one buffer converts, has exactly one "
    "$tribuf cell (none for an input buffer) whose enable is not a constant, a second buffer on an overlapping bit is diagnosed, "
    "and wrapping the buffer in EnableInserter / ResetInserter / DomainRenamer (no logic to act on) leaves the RTLIL unchanged.",
    "Inputs change only between clock edges. In a seeded third of the runs the four domains have resets that are pulsed at "
    "arbitrary instants: FFBuffer registers are reset-less, so nothing may change.",
    "A buffer whose direction its port cannot serve must be refused with ValueError when it is constructed.",
    "Vendor ride-along (a quarter of the runs; iCE40, ECP5, MachXO2, Gowin, Xilinx 7-series / Spartan-6 / Virtex-2 / Spartan-3 / -3E / "
    "-3A, Altera, QuickLogic; Buffer, FFBuffer, DDRBuffer): a buffer on a hand-made real port is lowered by the platform's buffer "
    "code and converted to RTLIL; a port without pin metadata must be treated like one whose "
    "metadata has no attributes, and an exception may only come from the platform code itself (a refusal), not from the core layers.",
    "Base-port bits not covered by the composed port are expected to keep their initial values.",
]
COMPONENTS = {"real": ["amaranth.lib.io.SimulationPort algebra (__getitem__/__add__/__invert__)", "amaranth.lib.io.Buffer",
                       "amaranth.lib.io.FFBuffer", "amaranth.hdl elaboration", "amaranth.sim"],
              "stub": ["PermSet scheduler seam", "clock driver", "per-bit map model over the base ports"]}
EXPECTED_PROBES = ("coincide", "inactive", "glitch-in", "loopback", "inverted_bits", "sliced", "concatenated", "ff_o_edge",
                   "ff_i_edge", "reset", "wrapped_real_buffer", "incompatible_buffers_refused", "real_port_algebra",
                   "vendor_buffer_elaborated", "vendor_buffer_refused")

DOMS = ["sync", "di", "do", "x"]


# ---- port expression interpreter (the harness's own bit map) -------------------------------------------------
def dir_and(a, b):
    if a == b:
        return a
    if a == "io":
        return b
    if b == "io":
        return a
    raise ValueError("i+o")


def interp(expr, bases):
    """-> (direction, [(base index, bit, inverted)])"""
    op = expr[0]
    if op == "base":
        b = bases[expr[1]]
        return b["dir"], [(expr[1], k, bool((b["invert"] >> k) & 1)) for k in range(b["width"])]
    if op == "slice":
        d, bits = interp(expr[1], bases)
        return d, bits[slice(expr[2], expr[3], expr[4])]
    if op == "index":
        d, bits = interp(expr[1], bases)
        return d, [bits[expr[2]]]
    if op == "inv":
        d, bits = interp(expr[1], bases)
        return d, [(b, k, not inv) for (b, k, inv) in bits]
    if op == "add":
        d1, b1 = interp(expr[1], bases)
        d2, b2 = interp(expr[2], bases)
        return dir_and(d1, d2), b1 + b2
    raise AssertionError(op)


def no_dups(expr, bases):
    """True if no (sub)expression mentions a base bit twice.  (A port such as `p + p` puts the same signal twice
    into one assignment target, which is an aliasing question of the language core, not of the port algebra.)"""
    _, bits = interp(expr, bases)
    used = [(b, k) for (b, k, _) in bits]
    if len(set(used)) != len(used):
        return False
    return all(no_dups(e, bases) for e in expr[1:] if isinstance(e, list))


def realise(expr, ports):
    op = expr[0]
    if op == "base":
        return ports[expr[1]]
    if op == "slice":
        return realise(expr[1], ports)[slice(expr[2], expr[3], expr[4])]
    if op == "index":
        return realise(expr[1], ports)[expr[2]]
    if op == "inv":
        return ~realise(expr[1], ports)
    if op == "add":
        return realise(expr[1], ports) + realise(expr[2], ports)


def _gen_expr(rng, bases, depth=0):
    r = rng.random()
    if depth >= 3 or r < 0.3:
        e = ["base", rng.randrange(len(bases))]
        if rng.random() < 0.5:
            w = bases[e[1]]["width"]
            e = _gen_slice(rng, e, w)
        return e
    if r < 0.5:
        return ["inv", _gen_expr(rng, bases, depth + 1)]
    if r < 0.75:
        return ["add", _gen_expr(rng, bases, depth + 1), _gen_expr(rng, bases, depth + 1)]
    inner = _gen_expr(rng, bases, depth + 1)
    try:
        _, bits = interp(inner, bases)
    except (ValueError, IndexError):
        return inner
    return _gen_slice(rng, inner, len(bits))


def _gen_slice(rng, e, w):
    if w > 0 and rng.random() < 0.3:
        return ["index", e, rng.randrange(-w, w)]
    step = rng.choice([None, None, 1, 2, 3, -1, -2])
    lo = rng.choice([None, rng.randint(-w - 1, w + 1)])
    hi = rng.choice([None, rng.randint(-w - 1, w + 1)])
    if step in (None, 1):
        # Value.__getitem__ rejects start > stop for unit steps (unlike Python lists); not this property's subject
        a, b, _ = slice(lo, hi, step).indices(w)
        if a > b:
            hi = lo
    return ["slice", e, lo, hi, step]


def gen_case(seed, tier):
    cfg = stream(seed, "cfg")
    wl = stream(seed, "workload")
    fl = stream(seed, "faults")
    sc = stream(seed, "sched")
    attempt = 0
    while True:
        attempt += 1
        nb = cfg.choice([1, 1, 2])
        bases = []
        for _ in range(nb):
            w = cfg.choice([0, 1, 2, 3, 4, 5, 8])
            inv = cfg.choice([0, (1 << w) - 1, cfg.randrange(1 << w), cfg.randrange(1 << w)])
            bases.append({"dir": cfg.choice(["i", "o", "io", "io"]), "width": w, "invert": inv})
        expr = _gen_expr(cfg, bases)
        try:
            d, bits = interp(expr, bases)
        except (ValueError, IndexError):
            continue
        if not no_dups(expr, bases):
            continue
        if attempt < 150 and not bits and cfg.random() < 0.9:
            continue
        break
    bdir = d if d != "io" else cfg.choice(["i", "o", "io", "io"])
    ff = cfg.random() < 0.55
    config = {"bases": bases, "expr": expr, "buffer": "FFBuffer" if ff else "Buffer", "dir": bdir}
    if ff:
        config["i_domain"] = cfg.choice([None, "di", "do"]) if bdir != "o" else None
        config["o_domain"] = cfg.choice([None, "do", "di"]) if bdir != "i" else None
    config["edges"] = {dn: cfg.choice(["pos", "neg"]) for dn in DOMS}
    config["via_renamer"] = bool(config.get("buffer") == "FFBuffer" and fl.random() < 0.25)
    config["async_resets"] = {dn: fl.random() < 0.4 for dn in DOMS}
    config["rerun"] = fl.random() < 0.2
    config["vendor"] = ({"platform": cfg.choice(["ice40", "ecp5", "machxo2", "gowin", "xc7", "xc6s", "xc2v", "xc3s", "xc3se", "xc3sa", "altera",
                                                  "quicklogic"]),
                         "kind": cfg.choice(["se", "se", "diff"]), "dir": cfg.choice(["i", "o", "io"]), "width": cfg.choice([1, 2, 3]),
                         "invert": cfg.randrange(8), "buffer": cfg.choice(["Buffer", "FFBuffer", "DDRBuffer"])}
                        if cfg.random() < 0.25 else None)
    # a companion registered output buffer on bits of a base port that the composed port leaves free: two buffers then
    # drive disjoint slices of the same port signals, possibly at the very same clock edge
    config["companion"] = None
    covered = {(b, k) for (b, k, _) in bits}
    for bi, b in enumerate(bases):
        if b["dir"] in ("o", "io") and cfg.random() < 0.5:
            free = [k for k in range(b["width"]) if (bi, k) not in covered]
            if free:
                lo = free[0]
                hi = lo
                while hi in free:
                    hi += 1
                config["companion"] = {"base": bi, "lo": lo, "hi": hi,
                                       "domain": config.get("o_domain") or cfg.choice(["sync", "do", "di"])}
                break
    n = len(bits)
    nsteps = cfg.randint(15, 120) if tier == "quick" else cfg.randint(15, 500)
    p_coin = fl.choice([0.0, 0.3, 0.7])
    levels = {dn: 0 for dn in DOMS}
    rlv = {dn: 0 for dn in DOMS}
    config["resets"] = fl.random() < 0.3
    steps = []
    targets = []
    if bdir != "i":
        targets += ["buf.o", "buf.o", "buf.oe"]
    for bi, b in enumerate(bases):
        if b["dir"] != "o":
            targets.append("port%d.i" % bi)
    if config["companion"]:
        targets += ["buf2.o", "buf2.oe"]
    while len(steps) < nsteps:
        for _ in range(wl.choice([0, 1, 1, 2, 3])):
            if not targets:
                break
            t = wl.choice(targets)
            if t == "buf.o":
                v = wl.randrange(1 << n)
            elif t == "buf2.o":
                v = wl.randrange(1 << (config["companion"]["hi"] - config["companion"]["lo"]))
            elif t in ("buf.oe", "buf2.oe"):
                v = wl.randint(0, 1)
            else:
                v = wl.randrange(1 << bases[int(t[4])]["width"])
            steps.append({"k": "set", "p": t, "v": v})
        if ff or config["companion"]:
            which = [wl.choice(DOMS)]
            if wl.random() < p_coin:
                which = wl.sample(DOMS, wl.randint(2, 4))
            ch = {}
            for dn in which:
                levels[dn] ^= 1
                ch[dn] = levels[dn]
            steps.append({"k": "ev", "l": ch})
            if config["resets"] and fl.random() < 0.08:
                dn = fl.choice(DOMS)
                rlv[dn] ^= 1
                steps.append({"k": "rst", "l": {dn: rlv[dn]}})
        elif wl.random() < 0.2:
            dn = wl.choice(DOMS)
            levels[dn] ^= 1
            steps.append({"k": "ev", "l": {dn: levels[dn]}})
    return {"config": config, "sched": {"mode": sc.choice(["seeded", "seeded", "reverse", "insertion"]),
                                        "seed": sc.randrange(1 << 32)}, "steps": steps}


def run_case(case):
    from amaranth.lib import io
    config = case["config"]
    bases = config["bases"]
    bdir = config["dir"]
    ff = config["buffer"] == "FFBuffer"
    d, bits = interp(config["expr"], bases)
    n = len(bits)
    ports = [io.SimulationPort(b["dir"], b["width"], invert=[bool((b["invert"] >> k) & 1) for k in range(b["width"])],
                               name="port%d" % i) for i, b in enumerate(bases)]
    port = realise(config["expr"], ports)
    res = Result()
    dig = Digest()
    stats = {"steps": 0, "edges": 0, "faults": {"coincide": 0, "inactive": 0, "glitch-in": 0},
             "probes": {"loopback": 0, "inverted_bits": sum(1 for b in bits if b[2]), "sliced": 0, "concatenated": 0,
                        "ff_o_edge": 0, "ff_i_edge": 0, "obs_changes": 0, "composed_width": n}}
    P, F = stats["probes"], stats["faults"]
    es = repr(config["expr"])
    P["sliced"] = int("slice" in es or "index" in es)
    P["concatenated"] = int("add" in es)

    def real_port_algebra():
        """The same expression over real ports (SingleEndedPort / DifferentialPort on IOPorts): widths, directions and
        inversion masks must compose exactly as for simulation ports (rides along: no netlist is built)."""
        from amaranth.hdl import IOPort
        for kindname in ("single", "diff"):
            rp = []
            for i, b in enumerate(bases):
                inv = [bool((b["invert"] >> k) & 1) for k in range(b["width"])]
                if kindname == "single":
                    rp.append(io.SingleEndedPort(IOPort(b["width"], name="io%d" % i), invert=inv, direction=b["dir"]))
                else:
                    rp.append(io.DifferentialPort(IOPort(b["width"], name="p%d" % i), IOPort(b["width"], name="n%d" % i),
                                                  invert=inv, direction=b["dir"]))
            q = realise(config["expr"], rp)
            if len(q) != n or tuple(q.invert) != tuple(b[2] for b in bits) or q.direction.value != d:
                raise Violation("real_port_algebra", -1, {"kind": kindname, "len": len(q), "invert": [bool(x) for x in q.invert],
                                                          "direction": q.direction.value,
                                                          "expected": [n, [b[2] for b in bits], d]})
        P["real_port_algebra"] = P.get("real_port_algebra", 0) + 1
        # every real port bit may be used by one buffer only: a second buffer on an overlapping slice must be diagnosed,
        # whatever its kind and direction; one buffer alone must convert
        if n >= 1 and all(b["width"] > 0 for b in bases):
            # (zero-width IOPorts are left out: the RTLIL backend cannot emit them at all - noted in DESIGN.md section 11,
            # it belongs to the unclaimed structural clause)
            from amaranth.hdl import Module, DriverConflict, Signal
            from amaranth.back import rtlil
            rp = [io.SingleEndedPort(IOPort(b["width"], name="io%d" % i),
                                     invert=[bool((b["invert"] >> k) & 1) for k in range(b["width"])], direction=b["dir"])
                  for i, b in enumerate(bases)]
            q = realise(config["expr"], rp)

            def design(two, wrap=0):
                m = Module()
                b0 = io.Buffer(bdir, q)
                if wrap:
                    # a control inserter / renamer around a buffer has no logic to act on: the netlist must not change
                    from amaranth.hdl import EnableInserter, ResetInserter, DomainRenamer
                    ctl = Signal(name="ctl")
                    m.submodules.b0 = {1: EnableInserter({"sync": ctl}), 2: ResetInserter({"sync": ctl}),
                                       3: DomainRenamer({"sync": "other"})}[wrap](b0)
                else:
                    m.submodules.b0 = b0
                outs = []
                if bdir != "i":
                    o_ = Signal(n, name="o_")
                    oe_ = Signal(name="oe_")
                    m.d.comb += [b0.o.eq(o_), b0.oe.eq(oe_)]
                    outs += [o_, oe_]
                if bdir != "o":
                    outs.append(b0.i)
                if two:
                    m.submodules.b1 = b1 = io.Buffer(bdir, q[0:1])
                    if bdir != "i":
                        m.d.comb += [b1.o.eq(o_[0]), b1.oe.eq(oe_)]
                    if bdir != "o":
                        outs.append(b1.i)
                return m, outs
            m1, outs1 = design(False)
            t1 = rtlil.convert(m1, ports=outs1, emit_src=False)
            ntri = t1.count("cell $tribuf")
            if ntri != (0 if bdir == "i" else 1):
                raise Violation("real_port_buffer_cells", -1, {"dir": bdir, "tribuf_cells": ntri})
            import re as _re
            # the pads the emitted text refers to are exactly those the buffer's port is made of (a slice or concatenation may
            # pick non-adjacent or reordered bits of one IOPort)
            used = set()
            for line in t1.splitlines():
                ls = line.strip()
                if ls.startswith("wire ") or ls.startswith("attribute "):
                    continue
                for mm_ in _re.finditer(r"\\io(\d+)(?: \[(\d+)(?::(\d+))?\])?", ls):
                    bi_ = int(mm_.group(1))
                    if mm_.group(2) is None:
                        used |= {(bi_, k_) for k_ in range(bases[bi_]["width"])}
                    elif mm_.group(3) is None:
                        used.add((bi_, int(mm_.group(2))))
                    else:
                        used |= {(bi_, k_) for k_ in range(int(mm_.group(3)), int(mm_.group(2)) + 1)}
            want_pads = {(b_[0], b_[1]) for b_ in bits}
            if used != want_pads:
                raise Violation("real_port_pads_in_netlist", -1, {"dir": bdir, "emitted": sorted(used), "expected": sorted(want_pads)})
            P["real_port_pads_checked"] = P.get("real_port_pads_checked", 0) + 1
            for en in _re.findall(r"connect \\EN (\S+)", t1):
                if en[0].isdigit():
                    raise Violation("real_port_output_enable_constant", -1, {"dir": bdir, "EN": en})
            wrap = 1 + (len(t1) + n) % 3
            mw, outsw = design(False, wrap)
            tw = rtlil.convert(mw, ports=outsw, emit_src=False)
            if tw != t1:
                raise Violation("netlist_changed_by_wrapper_without_logic", -1,
                                {"wrapper": {1: "EnableInserter", 2: "ResetInserter", 3: "DomainRenamer"}[wrap], "dir": bdir})
            P["wrapped_real_buffer"] = P.get("wrapped_real_buffer", 0) + 1
            m2, outs2 = design(True)
            try:
                rtlil.convert(m2, ports=outs2)
            except DriverConflict:
                P["double_use_diagnosed"] = P.get("double_use_diagnosed", 0) + 1
            else:
                raise Violation("port_bit_used_by_two_buffers", -1, {"dir": bdir, "width": n})
            if q.direction.value == "io":
                # ... also when one buffer reads the bit and the other drives it
                m3 = Module()
                m3.submodules.bi = bi_ = io.Buffer("i", q)
                m3.submodules.bo = bo_ = io.Buffer("o", q[0:1])
                o3 = Signal(name="o3")
                m3.d.comb += [bo_.o.eq(o3), bo_.oe.eq(1)]
                try:
                    rtlil.convert(m3, ports=[o3, bi_.i])
                except DriverConflict:
                    P["double_use_in_and_out_diagnosed"] = P.get("double_use_in_and_out_diagnosed", 0) + 1
                else:
                    raise Violation("port_bit_used_by_two_buffers", -1, {"dirs": ["i", "o"], "width": n})
        # a buffer whose direction the port cannot serve must be refused when it is constructed (ValueError), for every port and
        # buffer kind: Input port with Output/Bidir buffer, Output port with Input/Bidir buffer
        for pd, bd in (("i", "o"), ("i", "io"), ("o", "i"), ("o", "io")):
            for mkp in (lambda dd: io.SingleEndedPort(IOPort(2, name="rp"), direction=dd),
                        lambda dd: io.DifferentialPort(IOPort(2, name="rpp"), IOPort(2, name="rpn"), direction=dd),
                        lambda dd: io.SimulationPort(dd, 2, name="sp")):
                for mkb in (io.Buffer, io.FFBuffer):
                    try:
                        mkb(bd, mkp(pd))
                    except ValueError:
                        continue
                    raise Violation("incompatible_buffer_accepted", -1, {"port_direction": pd, "buffer_direction": bd,
                                                                         "buffer": mkb.__name__})
        P["incompatible_buffers_refused"] = P.get("incompatible_buffers_refused", 0) + 1
        # "comb" is not a clock domain: a registered buffer in it would have no register at all (one stage per direction is the
        # contract), so it is refused when the buffer is made
        for mkb in (io.FFBuffer, io.DDRBuffer):
            for dd, kw_ in (("i", {"i_domain": "comb"}), ("o", {"o_domain": "comb"}), ("io", {"i_domain": "comb"}),
                            ("io", {"o_domain": "comb"})):
                try:
                    mkb(dd, io.SimulationPort(dd, 2, name="spc"), **kw_)
                except ValueError:
                    continue
                raise Violation("registered_buffer_in_comb_domain_accepted", -1, {"buffer": mkb.__name__, "dir": dd, **kw_})
        P["comb_domain_buffers_refused"] = P.get("comb_domain_buffers_refused", 0) + 1
        # Input + Output must be refused for every port kind
        for mk in (lambda dd, nm: io.SingleEndedPort(IOPort(1, name=nm), direction=dd),
                   lambda dd, nm: io.DifferentialPort(IOPort(1, name=nm + "p"), IOPort(1, name=nm + "n"), direction=dd),
                   lambda dd, nm: io.SimulationPort(dd, 1, name=nm)):
            try:
                mk("i", "a") + mk("o", "b")
            except ValueError:
                continue
            raise Violation("input_plus_output_accepted", -1, {})

    def vendor_buffers():
        """Buffers on hand-made real ports, elaborated by the vendor platforms' own buffer code (no toolchain runs):
        (1) a port without pin metadata must be treated exactly like one whose metadata carries no attributes;
        (2) a refusal is raised by the platform code itself - an exception escaping from the core HDL layers underneath it means
            the platform handed them something malformed."""
        import traceback
        import warnings
        from amaranth import vendor
        from amaranth.hdl import IOPort, Module, ClockDomain, Fragment
        from amaranth.build.res import PortMetadata
        table = {
            "ice40": (vendor.SiliconBluePlatform, dict(device="iCE40HX8K", package="CT256"), {}),
            "ecp5": (vendor.LatticePlatform, dict(device="LFE5U-25F", package="BG381", speed="6"), {"toolchain": "Trellis"}),
            "machxo2": (vendor.LatticePlatform, dict(device="LCMXO2-1200HC", package="TG100", speed="4"), {"toolchain": "Diamond"}),
            "gowin": (vendor.GowinPlatform, dict(part="GW1NR-LV9QN88PC6/I5", family="GW1NR-9C"), {"toolchain": "Apicula"}),
            "xc7": (vendor.XilinxPlatform, dict(device="xc7a35ti", package="csg324", speed="1L"), {"toolchain": "Vivado"}),
            "xc6s": (vendor.XilinxPlatform, dict(device="xc6slx9", package="tqg144", speed="2"), {"toolchain": "ISE"}),
            "xc2v": (vendor.XilinxPlatform, dict(device="xc2v40", package="ft256", speed="4"), {}),
            "xc3s": (vendor.XilinxPlatform, dict(device="xc3s50", package="ft256", speed="4"), {}),
            "xc3se": (vendor.XilinxPlatform, dict(device="xc3s500e", package="ft256", speed="4"), {}),
            "xc3sa": (vendor.XilinxPlatform, dict(device="xc3s50a", package="ft256", speed="4"), {}),
            "altera": (vendor.AlteraPlatform, dict(device="5CSEBA6", package="U23", speed="I7"), {}),
            "quicklogic": (vendor.QuicklogicPlatform, dict(device="ql-eos-s3", package="wlcsp"), {}),
        }
        vb = config["vendor"]
        base, attrs_, kw = table[vb["platform"]]
        plat_cls = type("P", (base,), dict(attrs_, resources=[], connectors=[]))
        width = vb["width"]

        def attempt(meta):
            def md(tag):
                return [PortMetadata(tag + str(k), {}) for k in range(width)] if meta else None
            inv = [bool((vb["invert"] >> k) & 1) for k in range(width)]
            if vb["kind"] == "se":
                rp = io.SingleEndedPort(IOPort(width, name="pad", metadata=md("A")), invert=inv, direction=vb["dir"])
            else:
                rp = io.DifferentialPort(IOPort(width, name="padp", metadata=md("A")), IOPort(width, name="padn", metadata=md("B")),
                                         invert=inv, direction=vb["dir"])
            mm = Module()
            mm.domains.sync = ClockDomain()
            mm.submodules.b = getattr(io, vb["buffer"])(vb["dir"], rp)
            with warnings.catch_warnings():
                warnings.simplefilter("ignore")
                try:
                    from amaranth.back import rtlil as _rtlil
                    _rtlil.convert(mm, platform=plat_cls(**kw), ports=[])      # (down to the netlist: driver conflicts show only there)
                except Exception as e:
                    last = traceback.extract_tb(e.__traceback__)[-1].filename
                    return type(e).__name__, last.split("amaranth/")[-1]
            return "ok", None
        with_meta, without = attempt(True), attempt(False)
        for res_, where in (with_meta, without):
            if res_ != "ok" and not (where.startswith("vendor/") or where.startswith("lib/io")):
                raise Violation("vendor_buffer_crash", -1, dict(vb, raised=res_, where=where))
        if with_meta[0] != without[0]:
            raise Violation("port_without_metadata_treated_differently", -1, dict(vb, with_metadata=list(with_meta),
                                                                                  without_metadata=list(without)))
        P["vendor_buffer_" + ("elaborated" if with_meta[0] == "ok" else "refused")] = 1

    def pre():
        real_port_algebra()
        if config.get("vendor"):
            vendor_buffers()
        # static algebra checks on the composed port
        if len(port) != n:
            raise Violation("composed_width", -1, {"len": len(port), "expected": n})
        if tuple(port.invert) != tuple(b[2] for b in bits):
            raise Violation("composed_invert", -1, {"invert": list(port.invert), "expected": [b[2] for b in bits]})
        if port.direction.value != d:
            raise Violation("composed_direction", -1, {"direction": port.direction.value, "expected": d})

    if ff:
        i_dom = (config.get("i_domain") or "sync") if bdir != "o" else None
        o_dom = (config.get("o_domain") or "sync") if bdir != "i" else None
        kw = {}
        if config.get("i_domain"):
            kw["i_domain"] = config["i_domain"]
        if config.get("o_domain"):
            kw["o_domain"] = config["o_domain"]
        if config.get("via_renamer"):
            # the same buffer built on private domain names and moved to the configured domains by a DomainRenamer - also when that
            # sends both of its domains to one
            kw = {}
            ren = {}
            if bdir != "o":
                kw["i_domain"] = "ri"
                ren["ri"] = i_dom
            if bdir != "i":
                kw["o_domain"] = "ro"
                ren["ro"] = o_dom
            P["via_renamer"] = 1
            if i_dom is not None and i_dom == o_dom:
                P["renamer_merges_two_domains"] = 1
        buf = io.FFBuffer(bdir, port, **kw)
    else:
        i_dom = o_dom = None
        buf = io.Buffer(bdir, port)
    # the domains have (synchronous) resets, pulsed by "rst" steps: FFBuffer's registers are reset-less, nothing may change
    # (the resets may be asynchronous: held across clock edges they still leave the reset-less registers of a buffer running)
    domains = [DomainSpec(dn, edge=config["edges"][dn], reset_less=not config.get("resets"),
                          async_reset=bool(config.get("resets") and (config.get("async_resets") or {}).get(dn))) for dn in DOMS]
    act = {dn: (1 if config["edges"][dn] == "pos" else 0) for dn in DOMS}
    comp = config.get("companion")
    buf2 = None
    if comp:
        buf2 = io.FFBuffer("o", ports[comp["base"]][comp["lo"]:comp["hi"]], o_domain=comp["domain"])
        P["companion_buffer"] = 1
    dut_ = buf
    if ff and config.get("via_renamer"):
        from amaranth.hdl import DomainRenamer as _DR
        dut_ = _DR(ren)(buf)
    run = ManualRun(dut_, domains, sched_mode=case["sched"]["mode"], sched_seed=case["sched"]["seed"],
                    extra_submodules=[buf2] if buf2 is not None else ())
    mask_n = (1 << n) - 1

    def body(drv):
        pre()
        inp = {"buf.o": 0, "buf.oe": 0}
        sigs = {}
        if bdir != "i":
            sigs["buf.o"] = buf.o
            sigs["buf.oe"] = buf.oe
        for bi, b in enumerate(bases):
            if b["dir"] != "o":
                sigs["port%d.i" % bi] = ports[bi].i
        if buf2 is not None:
            sigs["buf2.o"] = buf2.o
            sigs["buf2.oe"] = buf2.oe
        for name, sig in sigs.items():
            inp[name] = drv.get(sig)      # initial values of the inputs (e.g. oe of an output buffer starts at 1)
        o2_ff = 0
        oe2_ff = 0
        lv = {dn: 0 for dn in DOMS}
        o_ff = 0
        oe_ff = 0
        i_ff = 0
        sets_since = 0

        def base_i(b, k):
            if bases[b]["dir"] == "o":
                return 0
            return (inp["port%d.i" % b] >> k) & 1

        def drive_vals():
            """(o as seen by the inner buffer, oe) -> after the optional output register"""
            if ff:
                return o_ff, oe_ff
            return inp["buf.o"], inp["buf.oe"]

        def inner_i():
            """value presented on the inner buffer's i (before the optional input register)"""
            o, oe = drive_vals()
            v = 0
            for k, (b, bit, inv) in enumerate(bits):
                if bdir == "io" and oe:
                    pin = ((o >> k) & 1) ^ inv          # what is driven on the pin
                    P["loopback"] += 1
                else:
                    pin = base_i(b, bit)
                v |= (pin ^ inv) << k
            return v

        def expected():
            exp = {}
            o, oe = drive_vals()
            for bi, b in enumerate(bases):
                if b["dir"] == "i":
                    continue
                ov = 0
                oev = ((1 << b["width"]) - 1) if b["dir"] == "o" else 0
                for k, (bb, bit, inv) in enumerate(bits):
                    if bb != bi or bdir == "i":
                        continue
                    ov |= (((o >> k) & 1) ^ inv) << bit
                    oev = (oev & ~(1 << bit)) | (oe << bit)
                if comp and comp["base"] == bi:
                    for k in range(comp["lo"], comp["hi"]):
                        inv = (b["invert"] >> k) & 1
                        ov = (ov & ~(1 << k)) | ((((o2_ff >> (k - comp["lo"])) & 1) ^ inv) << k)
                        oev = (oev & ~(1 << k)) | (oe2_ff << k)
                exp["port%d.o" % bi] = ov
                exp["port%d.oe" % bi] = oev
            if bdir != "o":
                exp["buf.i"] = i_ff if ff else inner_i()
            return exp

        def observe():
            obs = {}
            for bi, b in enumerate(bases):
                if b["dir"] != "i":
                    obs["port%d.o" % bi] = drv.get(ports[bi].o)
                    obs["port%d.oe" % bi] = drv.get(ports[bi].oe)
            if bdir != "o":
                obs["buf.i"] = drv.get(buf.i)
            return obs

        def compare(step):
            obs = observe()
            exp = expected()
            if obs != exp:
                bad = sorted(k for k in exp if obs.get(k) != exp[k])
                raise Violation("io_" + bad[0].split(".")[1], step,
                                {"signal": bad[0], "got": obs[bad[0]], "expected": exp[bad[0]],
                                 "bitmap": [[b, k, int(v)] for (b, k, v) in bits], "dir": bdir})
            return obs

        last = compare(-1)
        for idx, st in enumerate(case["steps"]):
            drv.begin_step(idx)
            stats["steps"] += 1
            if st["k"] == "rst":
                if config.get("resets"):
                    F["reset"] = F.get("reset", 0) + 1
                    drv.drive({dn + ".rst": lvl for dn, lvl in st["l"].items()})
            elif st["k"] == "set":
                name = st["p"]
                if name in sigs:
                    v = st["v"] & ((1 << len(sigs[name])) - 1)
                    if inp[name] != v:
                        inp[name] = v
                        drv.set(sigs[name], v)
                    sets_since += 1
                    if sets_since == 3:
                        F["glitch-in"] += 1
            else:
                changes = {}
                active = set()
                for dn, lvl in st["l"].items():
                    if lv[dn] != lvl:
                        lv[dn] = lvl
                        changes[dn + ".clk"] = lvl
                        stats["edges"] += 1
                        if lvl == act[dn]:
                            active.add(dn)
                if len(changes) >= 2:
                    F["coincide"] += 1
                new_i = inner_i() if (ff and i_dom in active) else None
                if ff and o_dom in active:
                    new_o, new_oe = inp["buf.o"] & mask_n, inp["buf.oe"]
                    P["ff_o_edge"] += 1
                else:
                    new_o, new_oe = o_ff, oe_ff
                new_o2 = None
                if comp and comp["domain"] in active:
                    new_o2 = (inp["buf2.o"], inp["buf2.oe"])
                    if ff and o_dom in active and comp["domain"] == o_dom:
                        P["two_buffers_same_edge"] = P.get("two_buffers_same_edge", 0) + 1
                if changes:
                    drv.drive(changes)
                if new_o2 is not None:
                    o2_ff, oe2_ff = new_o2
                if new_i is not None:
                    i_ff = new_i
                    P["ff_i_edge"] += 1
                o_ff, oe_ff = new_o, new_oe
                if changes and not (ff and ({i_dom, o_dom} & active)):
                    F["inactive"] += 1
                if active:
                    sets_since = 0
            obs = compare(idx)
            if obs != last:
                P["obs_changes"] += 1
            last = obs
            dig.add((st["k"], sorted(obs.items())))

    run_guarded(res, lambda: run.run(body))
    if res.violation is None and res.harness_error is None and config.get("rerun"):
        # the same simulator after Simulator.reset(): the buffer's registers (reset-less) are back at their initial values
        first = dig.restart()
        run_guarded(res, lambda: run.rerun(body))
        F["sim_reset"] = F.get("sim_reset", 0) + 1
        if res.violation is None and dig.hexdigest() != first:
            res.violation = {"oracle": "differs_after_simulator_reset", "step": -1, "detail": {}}
    stats["decisions"] = run.decisions
    dig.add_events(run.events)
    nontrivial = P["obs_changes"] > 0 and any(F.values())
    return finish(res, dig, stats, nontrivial)


def signature(case, violation):
    c = case["config"]
    sig = {"oracle": violation["oracle"], "buffer": c["buffer"], "dir": c["dir"]}
    if violation["oracle"] == "exception":
        sig["exc"] = violation["detail"].get("type")
        sig["where"] = violation["detail"].get("where")
    return sig


def simplify(case):
    c = case["config"]

    def subexprs(e):
        if e[0] in ("slice", "index", "inv"):
            yield e[1]
        if e[0] == "add":
            yield e[1]
            yield e[2]

    for sub in subexprs(c["expr"]):
        try:
            d, bits = interp(sub, c["bases"])
        except (ValueError, IndexError):
            continue
        if c["dir"] != d and d != "io":
            continue
        if not no_dups(sub, c["bases"]):
            continue
        yield dict(case, config=dict(c, expr=sub))
    if c["buffer"] == "FFBuffer":
        for key in ("i_domain", "o_domain"):
            if c.get(key):
                yield dict(case, config=dict(c, **{key: None}))
    for dn in DOMS:
        if c["edges"][dn] != "pos":
            steps = []
            for s in case["steps"]:
                if s["k"] == "ev" and dn in s["l"]:
                    s = {"k": "ev", "l": dict(s["l"], **{dn: 1 - s["l"][dn]})}
                steps.append(s)
            yield dict(case, config=dict(c, edges=dict(c["edges"], **{dn: "pos"})), steps=steps)
    for i, s in enumerate(case["steps"]):
        if s["k"] == "ev" and len(s["l"]) >= 2:
            steps = list(case["steps"])
            steps[i:i + 1] = [{"k": "ev", "l": {n: v}} for n, v in s["l"].items()]
            yield dict(case, steps=steps)
            break
