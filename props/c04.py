"""C04  Emitted RTLIL is behaviourally equivalent to the simulated design."""
from dsim.rng import stream, Digest
from dsim.simdrv import Violation
from dsim.runner import Result, finish, run_guarded
from dsim import progen, progdrv
from dsim import rtlil_eval

ID = "C04"
TITLE = "Emitted RTLIL is behaviourally equivalent to the simulated design"
RULE = ("case = (generated program as in C02/C03: expressions, statements, 1..3 domains, module hierarchies with signals driven "
        "in one module and read in ancestors, descendants and siblings, partially driven / undriven / zero-width signals, "
        "nested ResetInserter / EnableInserter / DomainRenamer; or a lib.memory.Memory configuration as in C11; or a library component (SyncFIFO*, AsyncFIFO*, "
        "crc.Processor, FFSynchronizer / AsyncFFSynchronizer / ResetSynchronizer / PulseSynchronizer, io.Buffer / FFBuffer on composed "
        "simulation ports) under its own C12/C13/C16/C17/C18 schedule; a seeded subset of "
        "the driven signals is exposed as top-level ports) x (explicit step list of input writes, clock edges alone / coincident, "
        "reset pulses). Side A: the real simulator with a permuted scheduler; side B: rtlil.convert() text executed by "
        "dsim/rtlil_eval.py under the same steps. Non-trivial = an output changed on both sides and a fault kind fired; "
        "distinct = distinct SHA-256 of the joint observation trace.")
ASSUMPTIONS = [
    "RTLIL semantics are those of dsim/rtlil_eval.py (DESIGN.md Appendix A), written from the published Yosys cell descriptions "
    "for exactly the constructs the backend emits; where that reading is not certain the evaluator yields *undefined* bits, "
    "which are not compared ('wherever the RTLIL is defined').",
    "A text the evaluator cannot read, or whose widths/ports/drivers are inconsistent, is itself a violation.",
    "Inputs never change in the same step as a clock edge. A reset may change in the same step as clock edges (an asynchronous "
    "reset rising at a clock edge; the asynchronous input of a CDC primitive changing at a clock edge).",
]
COMPONENTS = {"real": ["amaranth.hdl._ir (build_netlist, emit_rhs/emit_assign/emit_drivers, _compute_net_flows/_compute_ports)",
                       "amaranth.hdl._nir", "amaranth.back.rtlil", "amaranth.sim (side A)"],
              "stub": ["RTLIL interpreter dsim/rtlil_eval.py (there is no Yosys offline)", "PermSet scheduler seam",
                       "clock/reset driver"]}
EXPECTED_PROBES = ("sched", "coincide", "srst", "arst", "submodules", "fsm", "part", "array", "reset_inserter", "enable_inserter",
                   "domain_renamer", "memory_design", "library_design", "library_C12", "library_C13", "library_C16", "library_C17", "library_C18", "library_WIRE", "compared_bits", "undefined_bits_skipped", "internal_signals")
OPTS = {"max_domains": 3, "max_modules": 4, "wrappers": True, "prints": False, "fsm": True, "max_stmts": 8, "depth": 2,
        "clock_reads": True, "shadows": True, "derived_clocks": True}
CHUNK = 4


def gen_case_i(seed, tier, index):
    cfg = stream(seed, "cfg")
    wl = stream(seed, "workload")
    fl = stream(seed, "faults")
    sc = stream(seed, "sched")
    sched = {"mode": sc.choice(["seeded", "seeded", "reverse", "insertion"]), "seed": sc.randrange(1 << 32)}
    if index % 8 == 5:
        # library components (real FIFOs with their synchronisers and memories, CRC processors) under their own C12/C13/C16
        # schedules: simulator vs emitted RTLIL
        which = ["C12", "C13", "C16", "C17", "C18", "WIRE"][(index // 8) % 6]
        if which == "WIRE":
            # a wiring.Component with stream interfaces (optionally always_ready / always_valid, whose members are constants),
            # converted with the ports inferred from its signature
            w = cfg.choice([1, 4, 8])
            config = {"width": w, "always_ready": cfg.random() < 0.5, "always_valid": cfg.random() < 0.4, "edge": "pos"}
            steps, lvl = [], 0
            for _ in range(cfg.randint(10, 60)):
                if wl.random() < 0.6:
                    steps.append({"k": "set", "v": {"i_payload": wl.randrange(1 << w), "i_valid": wl.randint(0, 1), "o_ready": wl.randint(0, 1)}})
                lvl ^= 1
                steps.append({"k": "clk", "l": lvl})
            return {"kind": "lib", "lib": "WIRE", "config": config, "steps": steps, "sched": sched}
        from dsim import runner as _r
        mod = _r.load(which)
        c = _r.gen(mod, seed, tier, index)
        while which == "C17" and (c["config"]["kind"] == "pulse_tl" or c["config"].get("shadow_neg")):
            seed = seed * 6364136223846793005 + 1442695040888963407 & (1 << 64) - 1
            c = _r.gen(mod, seed, tier, index)
        return {"kind": "lib", "lib": which, "config": c["config"], "steps": c["steps"], "sched": c["sched"]}
    if index % 4 == 3:
        from props import c11
        c = c11.gen_case(seed, tier)
        c["kind"] = "memory"
        c["rtlil"] = False
        if fl.random() < 0.5:
            # domain resets at arbitrary instants (C04 quantifies over reset edges for every design, memories included)
            steps = []
            lv = {d["name"]: 0 for d in c["config"]["domains"]}
            for st in c["steps"]:
                steps.append(st)
                if st["k"] == "ev" and fl.random() < 0.08:
                    dn = fl.choice(sorted(lv))
                    lv[dn] ^= 1
                    steps.append({"k": "rst", "l": {dn: lv[dn]}})
            c["steps"] = steps
        return c
    o = dict(OPTS)
    o["wrappers"] = cfg.random() < 0.5
    prog = progen.gen_program(cfg, o)
    n = cfg.randint(10, 60) if tier == "quick" else cfg.randint(10, 160)
    steps = progdrv.gen_steps(prog, wl, fl, n, p_reset=fl.choice([0.0, 0.05, 0.15]), p_coincide=fl.choice([0.0, 0.3, 0.7]), p_mixed=fl.choice([0.0, 0.1, 0.25]))
    drv = [i for i, s in enumerate(prog["signals"]) if s["role"] == "driven"]
    ports = [i for i in drv if cfg.random() < 0.7] or drv[:1]
    return {"kind": "prog", "prog": prog, "sched": sched, "steps": steps, "ports": ports}


def gen_case(seed, tier):
    return gen_case_i(seed, tier, seed % 4)


def rtlil_target_width(t, sigs):
    from dsim.refint import shape_of
    if t[0] == "cat":
        return sum(rtlil_target_width(p, sigs) for p in t[1])
    return shape_of(t, sigs)[0]


def _classify(e):
    return "rtlil_unreadable" if isinstance(e, rtlil_eval.Unreadable) else "rtlil_does_not_settle"


def _has_signed_shift(text):
    import re
    return re.search(r"cell \$shift [^\n]*\n\s*parameter \\A_SIGNED 1", text) is not None


def run_prog(case, res, stats):
    from amaranth.back import rtlil
    P, F = stats["probes"], stats["faults"]
    P.update(progdrv.count_features(case["prog"]))
    pr = progdrv.ProgRun(case, stats, compare_ref=False)
    prog = case["prog"]
    sigs = prog["signals"]
    top = pr.run.top
    ports = {"bus": (top.bus, None)}
    port_of = {}
    for i, s in enumerate(sigs):
        if s["width"] == 0:
            continue        # nothing to expose (and nothing to drive)
        if s["role"] in ("input", "ctl") or i in case["ports"]:
            ports["p%d" % i] = (pr.B.sigs[i], None)
            port_of[i] = "p%d" % i
    P["internal_signals"] = sum(1 for i, s in enumerate(sigs) if s["role"] == "driven" and i not in port_of)
    text = rtlil.convert(top, ports=ports)
    try:
        D = rtlil_eval.Design(text)
        # a second copy that leaves what a signed $shift pulls in from beyond its operand's extension undefined: a mismatch that
        # disappears there is attributed to exactly that construct (part-select of a signed value above its MSB)
        D2 = rtlil_eval.Design(text, shift_signed_fill="undef") if _has_signed_shift(text) else None
    except (rtlil_eval.Unreadable, rtlil_eval.CombLoop) as e:
        raise Violation(_classify(e), -1, {"msg": str(e)[:300]})
    if D2 is not None:
        P["signed_shift_cells"] = P.get("signed_shift_cells", 0) + 1
    if D.ff_without_init:
        raise Violation("register_initial_value_undefined", -1, {"wires": [list(x) for x in D.ff_without_init[:4]]})
    # port directions must be as the design implies
    assigned = set()
    assigned_zero = set()

    def walk_stmts(stmts):
        for st in stmts:
            if st[0] == "assign":
                t = st[2]
                while t[0] in ("as_signed", "as_unsigned"):
                    t = t[1]
                if t[0] == "slice" and t[1][0] == "array":
                    # a slice of an Array proxy addresses no bit of an element that ends below the slice
                    from dsim.refint import shape_of as _shape_of
                    for e in t[1][1]:
                        (assigned if (_shape_of(e, sigs)[0] > t[2] and t[3] > t[2]) else assigned_zero).update(progen._target_sigs(e))
                elif rtlil_target_width(st[2], sigs) > 0:
                    assigned.update(progen._target_sigs(st[2]))
                else:
                    assigned_zero.update(progen._target_sigs(st[2]))    # a zero-width target drives nothing
            elif st[0] == "if":
                for c, b in st[1]:
                    if b and b[-1][0] == "abort":
                        continue          # a dropped branch assigns nothing
                    walk_stmts(b)
                if st[2]:
                    walk_stmts(st[2])
            elif st[0] == "switch":
                for pp, b in st[2]:
                    walk_stmts(b)
            elif st[0] == "fsm":
                for nm, b in st[1]["states"]:
                    walk_stmts(b)

    def walk_mods(m):
        walk_stmts(m["stmts"])
        for sub in m["subs"]:
            walk_mods(sub)
    walk_mods(prog["top"])
    undriven = {}
    for i, name in list(port_of.items()):
        if name not in D.top_ports:
            if sigs[i]["width"] == 0:
                continue
            raise Violation("port_missing", -1, {"port": name, "signal": i})
        kind = D.top_ports[name][1]
        want = "input" if (sigs[i]["role"] in ("input", "ctl") or i not in assigned) else "output"
        if kind != want and not (i in assigned_zero and i not in assigned):
            # (a signal whose only assignments have zero-width targets may be emitted either way)
            raise Violation("port_direction", -1, {"port": name, "emitted": kind, "expected": want})
        if sigs[i]["role"] == "driven" and kind == "input":
            # a signal nothing assigns is an input of the emitted design: feed it its constant value
            undriven[name] = sigs[i]["init"]
            del port_of[i]
    if undriven:
        D.set_inputs(undriven)
        if D2 is not None:
            D2.set_inputs(undriven)
    lines = list(top.lines)
    state = {"bus": 0}

    def compare(drv, idx):
        skipped = 0
        obs = []
        for i, name in port_of.items():
            if sigs[i]["role"] != "driven" or name not in D.top_ports:
                continue
            a = drv.get(pr.B.sigs[i]) & ((1 << sigs[i]["width"]) - 1)
            v, x, w = D.get(name)
            if w != sigs[i]["width"]:
                raise Violation("port_width", idx, {"port": name, "emitted": w, "expected": sigs[i]["width"]})
            if (a ^ v) & ~x & ((1 << w) - 1):
                oracle = "rtlil_vs_simulator"
                if D2 is not None:
                    v2, x2, _w2 = D2.get(name)
                    if not ((a ^ v2) & ~x2 & ((1 << w) - 1)):
                        oracle = "rtlil_signed_part_select_above_msb"
                raise Violation(oracle, idx, {"signal": i, "name": sigs[i]["name"], "simulator": a, "rtlil": v,
                                              "rtlil_undefined_mask": x, "width": w})
            P["compared_bits"] += w - bin(x).count("1")
            skipped += bin(x).count("1")
            obs.append((a, x))
        P["undefined_bits_skipped"] += skipped
        return obs

    def hook(drv, ref, idx, st, active):
        if st is not None:
            try:
                if st["k"] == "set":
                    si = st["s"]
                    if si in port_of and sigs[si]["role"] in ("input", "ctl") and port_of[si] in D.top_ports:
                        D.set_inputs({port_of[si]: st["v"]})
                        if D2 is not None:
                            D2.set_inputs({port_of[si]: st["v"]})
                else:
                    v = 0
                    for k, ln in enumerate(lines):
                        if drv.level(ln):
                            v |= 1 << k
                    if v != state["bus"]:
                        state["bus"] = v
                        D.set_inputs({"bus": v})
                        if D2 is not None:
                            D2.set_inputs({"bus": v})
            except (rtlil_eval.Unreadable, rtlil_eval.CombLoop) as e:
                raise Violation(_classify(e), idx, {"msg": str(e)[:300]})
        obs = compare(drv, idx)
        pr.dig.add(("B", obs), state=False)

    pr.execute(hook=hook)
    return pr


def run_memory(case, res, stats):
    """The RTLIL clause of C11: the emitted memory cells under the same steps as the simulator."""
    from amaranth.hdl import Value
    from amaranth.back import rtlil
    from props import c11
    from dsim.simdrv import ManualRun, DomainSpec
    P, F = stats["probes"], stats["faults"]
    P["memory_design"] += 1
    config = case["config"]
    mem, wps, rps = c11.build(config)
    domains = [DomainSpec(d["name"], edge=d["edge"], async_reset=d.get("async", False)) for d in config["domains"]]
    run = ManualRun(c11.with_decoy(config, mem), domains, sched_mode=case["sched"]["mode"], sched_seed=case["sched"]["seed"])
    top = run.top
    sig = {}
    for i, p in enumerate(wps):
        sig["w%d.addr" % i] = p.addr
        sig["w%d.data" % i] = Value.cast(p.data)
        sig["w%d.en" % i] = p.en
    for i, p in enumerate(rps):
        sig["r%d.addr" % i] = p.addr
        if config["rports"][i]["domain"] != "comb":
            sig["r%d.en" % i] = p.en
    outs = {"r%d.data" % i: Value.cast(p.data) for i, p in enumerate(rps)}
    ports = {"bus": (top.bus, None)}
    pname = {}
    for k, (n, s) in enumerate(list(sig.items()) + list(outs.items())):
        if len(s) == 0:
            continue
        pname[n] = "p%d" % k
        ports["p%d" % k] = (s, None)
    text = rtlil.convert(top, ports=ports)
    try:
        D = rtlil_eval.Design(text)
    except (rtlil_eval.Unreadable, rtlil_eval.CombLoop) as e:
        raise Violation(_classify(e), -1, {"msg": str(e)[:300]})
    if D.ff_without_init:
        raise Violation("register_initial_value_undefined", -1, {"wires": [list(x) for x in D.ff_without_init[:4]]})
    dig = Digest()
    act = {d["name"]: (1 if d["edge"] == "pos" else 0) for d in config["domains"]}

    def body(drv):
        inp = {n: drv.get(s) & ((1 << len(s)) - 1) for n, s in sig.items()}
        for n, v in inp.items():
            if n in pname and pname[n] in D.top_ports:
                D.set_inputs({pname[n]: v})
        lv = {d["name"]: 0 for d in config["domains"]}

        def compare(idx):
            obs = []
            for n, s in outs.items():
                if n not in pname or pname[n] not in D.top_ports:
                    continue
                a = drv.get(s) & ((1 << len(s)) - 1)
                v, x, w = D.get(pname[n])
                if (a ^ v) & ~x & ((1 << w) - 1):
                    raise Violation("rtlil_vs_simulator", idx, {"port": n, "simulator": a, "rtlil": v, "rtlil_undefined_mask": x})
                P["compared_bits"] += w - bin(x).count("1")
                P["undefined_bits_skipped"] += bin(x).count("1")
                obs.append((a, x))
            return obs

        compare(-1)
        for idx, st in enumerate(case["steps"]):
            drv.begin_step(idx)
            stats["steps"] += 1
            k = st["k"]
            try:
                if k == "set":
                    n = st["p"]
                    if n in sig:
                        v = st["v"] & ((1 << len(sig[n])) - 1)
                        if inp[n] != v:
                            inp[n] = v
                            drv.set(sig[n], v)
                            if n in pname and pname[n] in D.top_ports:
                                D.set_inputs({pname[n]: v})
                elif k == "ev":
                    changes = {}
                    for n, lvl in st["l"].items():
                        if n in lv and lv[n] != lvl:
                            lv[n] = lvl
                            changes[n + ".clk"] = lvl
                            stats["edges"] += 1
                    if len(changes) == 2:
                        F["coincide"] += 1
                    if changes:
                        drv.drive(changes)
                        v = 0
                        for b, ln in enumerate(top.lines):
                            if drv.level(ln):
                                v |= 1 << b
                        D.set_inputs({"bus": v})
                elif k == "rst":
                    changes = {n + ".rst": lvl for n, lvl in st["l"].items() if n in lv}
                    if changes:
                        F["srst"] += 1
                        drv.drive(changes)
                        v = 0
                        for b, ln in enumerate(top.lines):
                            if drv.level(ln):
                                v |= 1 << b
                        D.set_inputs({"bus": v})
                else:
                    continue        # testbench row accesses have no RTLIL counterpart
            except (rtlil_eval.Unreadable, rtlil_eval.CombLoop) as e:
                raise Violation(_classify(e), idx, {"msg": str(e)[:300]})
            obs = compare(idx)
            dig.add((k, obs))
    run.run(body)
    stats["decisions"] = run.decisions

    class R:
        pass
    r = R()
    r.dig = dig
    return r


def lib_adapter(which, config):
    """-> (dut, domain specs, inputs {name: Signal}, outputs {name: Signal}, step translator)"""
    from dsim.simdrv import DomainSpec
    if which == "C12":
        from props import c12
        dut = c12.build(config)
        doms = [DomainSpec("sync", edge=config["edge"])]
        ins = {"w_en": dut.w_en, "w_data": dut.w_data, "r_en": dut.r_en}
        outs = {"w_rdy": dut.w_rdy, "r_rdy": dut.r_rdy, "r_data": dut.r_data, "level": dut.level}

        def tr(st):
            if st["k"] == "rst":
                return ("drive", {"sync.rst": st["l"]})
            return ("set", st["v"]) if st["k"] == "set" else ("drive", {"sync.clk": st["l"]})
    elif which == "C13":
        from props import c13
        dut = c13.build(config)
        doms = [DomainSpec("write", edge=config["w_edge"], reset_less=config["w_reset_less"]), DomainSpec("read")]
        ins = {"w_en": dut.w_en, "w_data": dut.w_data, "r_en": dut.r_en}
        outs = {"w_rdy": dut.w_rdy, "r_rdy": dut.r_rdy, "r_data": dut.r_data, "r_level": dut.r_level, "w_level": dut.w_level}

        def tr(st):
            if st["k"] == "rst":
                return ("drive", {} if config["w_reset_less"] else {"write.rst": st["l"]})
            if st["k"] == "rrst":
                return ("drive", {"read.rst": st["l"]})
            return ("set", st["v"]) if st["k"] == "set" else ("drive", {k + ".clk": v for k, v in st["l"].items()})
    elif which == "WIRE":
        from amaranth.hdl import Module, Const
        from amaranth.lib import stream, wiring
        from amaranth.lib.wiring import In, Out
        w_ = config["width"]

        class Stage(wiring.Component):
            def __init__(self):
                super().__init__({"i": In(stream.Signature(w_, always_ready=config["always_ready"])),
                                  "o": Out(stream.Signature(w_ + 1, always_valid=config["always_valid"]))})

            def elaborate(self, platform):
                m = Module()
                if not config["always_ready"]:
                    m.d.comb += self.i.ready.eq(self.o.ready)
                with m.If(self.i.valid & self.i.ready):
                    m.d.sync += self.o.payload.eq(self.i.payload + 1)
                    if not config["always_valid"]:
                        m.d.sync += self.o.valid.eq(1)
                if not config["always_valid"]:
                    with m.Elif(self.o.ready):
                        m.d.sync += self.o.valid.eq(0)
                return m
        dut = Stage()
        doms = [DomainSpec("sync", edge=config["edge"])]
        ins = {"i_payload": dut.i.payload, "i_valid": dut.i.valid, "o_ready": dut.o.ready}
        outs = {"o_payload": dut.o.payload}
        if not isinstance(dut.o.valid, Const):
            outs["o_valid"] = dut.o.valid
        if not isinstance(dut.i.ready, Const):
            outs["i_ready"] = dut.i.ready

        def tr(st):
            return ("set", st["v"]) if st["k"] == "set" else ("drive", {"sync.clk": st["l"]})
        # conversion with the ports inferred from the component's signature (a fresh object: elaboration freezes it)
        from amaranth.back import rtlil as _rtlil
        txt = _rtlil.convert(Stage())
        for nm in ("i__payload", "o__payload"):
            if nm not in txt:
                raise Violation("component_port_missing", -1, {"port": nm})
    elif which == "C18":
        # I/O buffers on composed simulation ports: per-bit inversion, one register stage per direction, tristate loop-back
        from amaranth.hdl import Module, Elaboratable
        from amaranth.lib import io
        from props import c18
        bases, bdir = config["bases"], config["dir"]
        sports = [io.SimulationPort(b["dir"], b["width"], invert=[bool((b["invert"] >> k) & 1) for k in range(b["width"])],
                                    name="port%d" % i) for i, b in enumerate(bases)]
        port = c18.realise(config["expr"], sports)
        if config["buffer"] == "FFBuffer":
            kw = {k: config[k] for k in ("i_domain", "o_domain") if config.get(k)}
            buf = io.FFBuffer(bdir, port, **kw)
        else:
            buf = io.Buffer(bdir, port)
        comp = config.get("companion")
        buf2 = io.FFBuffer("o", sports[comp["base"]][comp["lo"]:comp["hi"]], o_domain=comp["domain"]) if comp else None

        class Both(Elaboratable):
            def elaborate(self, platform):
                m = Module()
                m.submodules.buf = buf
                if buf2 is not None:
                    m.submodules.buf2 = buf2
                return m
        dut = Both()
        doms = [DomainSpec(dn, edge=config["edges"][dn], reset_less=not config.get("resets")) for dn in c18.DOMS]
        ins, outs = {}, {}
        if bdir != "i":
            ins["buf_o"], ins["buf_oe"] = buf.o, buf.oe
        if bdir != "o":
            outs["buf_i"] = buf.i
        for bi, b in enumerate(bases):
            if b["dir"] != "o":
                ins["port%d_i" % bi] = sports[bi].i
            if b["dir"] != "i":
                outs["port%d_o" % bi] = sports[bi].o
                outs["port%d_oe" % bi] = sports[bi].oe
        if buf2 is not None:
            ins["buf2_o"], ins["buf2_oe"] = buf2.o, buf2.oe

        def tr(st):
            if st["k"] == "set":
                return ("set", {st["p"].replace(".", "_"): st["v"]})
            if st["k"] == "rst":
                return ("drive", {k + ".rst": v for k, v in st["l"].items()} if config.get("resets") else {})
            return ("drive", {k + ".clk": v for k, v in st["l"].items()})
    elif which == "C17":
        # clock-domain-crossing primitives: registers with asynchronous set/reset driven by ordinary inputs
        from amaranth.hdl import Signal, Module, Elaboratable, ResetSignal
        from amaranth.lib import cdc
        kind, stages = config["kind"], config["stages"]
        extra = None
        if kind == "ff":
            i, o = Signal(config["width"], name="i"), Signal(config["width"], name="o")
            dut = cdc.FFSynchronizer(i, o, o_domain="o", init=config["init"], stages=stages, reset_less=config["reset_less"])
            doms = [DomainSpec("o", edge=config["o_edge"]), DomainSpec("x")]
            ins, outs = {"i": i}, {"o": o}
        elif kind == "async":
            i, o = Signal(name="i"), Signal(name="o")
            on_ = config.get("o_name", "o")
            dut = cdc.AsyncFFSynchronizer(i, o, o_domain=on_, stages=stages, async_edge=config["async_edge"])
            doms = [DomainSpec(on_), DomainSpec("x")]
            extra, ins, outs = {"a": i}, {}, {"o": o}
        elif kind == "reset":
            i, o = Signal(name="arst"), Signal(name="o_rst")
            on_ = config.get("o_name", "o")
            inner = cdc.ResetSynchronizer(i, domain=on_, stages=stages)

            class Obs(Elaboratable):
                def elaborate(self, platform):
                    m = Module()
                    m.submodules.inner = inner
                    m.d.comb += o.eq(ResetSignal(on_))
                    return m
            dut = Obs()
            doms = [DomainSpec(on_, drive_rst=False), DomainSpec("x")]
            extra, ins, outs = {"a": i}, {}, {"o_rst": o}
        else:
            dut = cdc.PulseSynchronizer("i", "o", stages=stages)
            doms = [DomainSpec("i", edge=config["i_edge"], reset_less=True), DomainSpec("o", edge=config["o_edge"], reset_less=True)]
            ins, outs = {"i": dut.i}, {"o": dut.o}

        def tr(st):
            if st["k"] == "set":
                return ("set", {"i": st["i"]})
            on2 = config.get("o_name", "o") if kind in ("async", "reset") else "o"
            # (resets of the pulse synchroniser's domains, "ri" / "ro": the domains are built reset-less here)
            return ("drive", {(k if k == "a" else ("o.rst" if k == "r" else (on2 if k == "o" else k) + ".clk")): v
                              for k, v in st["l"].items() if k not in ("ri", "ro")})
        return dut, doms, ins, outs, tr, extra
    else:
        from props import c16
        from amaranth.lib import crc as crclib
        p = c16.params_of(config)
        dut = crclib.Processor(crclib.Algorithm(**p)(config["data_width"]))
        doms = [DomainSpec("sync", edge=config["edge"])]
        ins = {"start": dut.start, "valid": dut.valid, "data": dut.data}
        outs = {"crc": dut.crc, "match_detected": dut.match_detected}

        def tr(st):
            if st["k"] == "rst":
                return ("drive", {"sync.rst": st["l"]})
            return ("set", st["v"]) if st["k"] == "set" else ("drive", {"sync.clk": st["l"]})
    return dut, doms, ins, outs, tr, None


def run_lib(case, res, stats):
    from amaranth.back import rtlil
    from dsim.simdrv import ManualRun
    P, F = stats["probes"], stats["faults"]
    P["library_design"] = P.get("library_design", 0) + 1
    dut, doms, ins, outs, tr, extra = lib_adapter(case["lib"], case["config"])
    P["library_" + case["lib"]] = P.get("library_" + case["lib"], 0) + 1
    run = ManualRun(dut, doms, sched_mode=case["sched"]["mode"], sched_seed=case["sched"]["seed"], extra_lines=extra)
    top = run.top
    ports = {"bus": (top.bus, None)}
    for n, s in list(ins.items()) + list(outs.items()):
        if len(s):
            ports[n] = (s, None)
    text = rtlil.convert(top, ports=ports)
    try:
        D = rtlil_eval.Design(text)
    except (rtlil_eval.Unreadable, rtlil_eval.CombLoop) as e:
        raise Violation(_classify(e), -1, {"msg": str(e)[:300], "lib": case["lib"]})
    if D.ff_without_init:
        raise Violation("register_initial_value_undefined", -1, {"wires": [list(x) for x in D.ff_without_init[:4]]})
    dig = Digest()

    def body(drv):
        cur = {n: drv.get(s) & ((1 << len(s)) - 1) for n, s in ins.items()}
        for n, v in cur.items():
            if n in D.top_ports:
                D.set_inputs({n: v})

        def compare(idx):
            obs = []
            for n, s in outs.items():
                if n not in D.top_ports or D.top_ports[n][1] == "input":
                    continue        # (an output nothing drives, e.g. an unused port's `oe`, is an input of the emitted design)
                a = drv.get(s) & ((1 << len(s)) - 1)
                v, x, w = D.get(n)
                if (a ^ v) & ~x & ((1 << w) - 1):
                    raise Violation("rtlil_vs_simulator", idx, {"lib": case["lib"], "port": n, "simulator": a, "rtlil": v,
                                                                "rtlil_undefined_mask": x})
                P["compared_bits"] += w - bin(x).count("1")
                P["undefined_bits_skipped"] += bin(x).count("1")
                obs.append((a, x))
            return obs

        compare(-1)
        for idx, st in enumerate(case["steps"]):
            drv.begin_step(idx)
            stats["steps"] += 1
            kind, payload = tr(st)
            try:
                if kind == "set":
                    for n, v in payload.items():
                        v &= (1 << len(ins[n])) - 1
                        if cur[n] != v:
                            cur[n] = v
                            drv.set(ins[n], v)
                            if n in D.top_ports:
                                D.set_inputs({n: v})
                else:
                    changes = {ln: (1 - drv.level(ln) if lvl == "toggle" else lvl) for ln, lvl in payload.items()
                               if lvl == "toggle" or drv.level(ln) != lvl}
                    if changes:
                        stats["edges"] += len(changes)
                        if len(changes) >= 2:
                            F["coincide"] += 1
                        drv.drive(changes)
                        v = 0
                        for b, ln in enumerate(top.lines):
                            if drv.level(ln):
                                v |= 1 << b
                        D.set_inputs({"bus": v})
            except (rtlil_eval.Unreadable, rtlil_eval.CombLoop) as e:
                raise Violation(_classify(e), idx, {"msg": str(e)[:300], "lib": case["lib"]})
            dig.add((st["k"], compare(idx)))
    run.run(body)
    stats["decisions"] = run.decisions

    class R:
        pass
    r = R()
    r.dig = dig
    return r


def run_case(case):
    res = Result()
    stats = {"steps": 0, "edges": 0, "faults": {"sched": 0, "coincide": 0, "inactive": 0, "srst": 0, "arst": 0, "gate": 0, "glitch-in": 0},
             "probes": {"compared_bits": 0, "undefined_bits_skipped": 0, "memory_design": 0, "internal_signals": 0}}
    holder = {}

    def go():
        if case.get("kind") == "lib":
            holder["pr"] = run_lib(case, res, stats)
        elif case.get("kind") == "memory":
            # row accesses are dropped: keep the two sides in step
            c = dict(case, steps=[s for s in case["steps"] if s["k"] in ("set", "ev", "rst")])
            holder["pr"] = run_memory(c, res, stats)
        else:
            holder["pr"] = run_prog(case, res, stats)

    run_guarded(res, go)
    if stats.get("decisions"):
        stats["faults"]["sched"] = 1
    dig = holder["pr"].dig if "pr" in holder else Digest()
    nontrivial = stats["probes"]["compared_bits"] > 0 and stats["edges"] > 0 and any(stats["faults"].values())
    return finish(res, dig, stats, nontrivial)


def signature(case, violation):
    sig = {"oracle": violation["oracle"], "kind": case.get("kind", "prog"), "lib": case.get("lib")}
    if violation["oracle"] == "exception":
        sig["exc"] = violation["detail"].get("type")
        sig["where"] = violation["detail"].get("where")
    return sig


def simplify(case):
    if case.get("kind") == "lib":
        if case["lib"] == "WIRE":
            return
        from dsim import runner as _r
        sm = getattr(_r.load(case["lib"]), "simplify", None)
        if sm:
            for c in sm({"config": case["config"], "steps": case["steps"], "sched": case["sched"]}):
                yield dict(case, config=c["config"], steps=c["steps"])
        return
    if case.get("kind") == "memory":
        from props import c11
        yield from c11.simplify(case)
        return
    yield from progdrv.simplify_prog(case)
    if len(case["ports"]) > 1:
        for i in range(len(case["ports"])):
            yield dict(case, ports=case["ports"][:i] + case["ports"][i + 1:])


def self_test():
    """rtlil_eval against hand-computed values (an error there would produce false alarms)."""
    D = rtlil_eval.Design.__new__(rtlil_eval.Design)
    D.val, D.xm = {}, {}
    D.shift_signed_fill = "zero"

    def c(v, w, x=0):
        return [("c", v, x, w)]

    def run(t, P, A, B=None, S=None, yw=None):
        conns = {"A": A, "Y": [("w", "y", 0, yw)]}
        if B is not None:
            conns["B"] = B
        if S is not None:
            conns["S"] = S
        D.val["y"], D.xm["y"] = 0, 0
        return D.eval_cell(t, {k: str(v) for k, v in P.items()}, conns)

    U = {"\\A_SIGNED": 0, "\\B_SIGNED": 0}
    Sg = {"\\A_SIGNED": 1, "\\B_SIGNED": 1}
    assert run("$add", U, c(7, 3), c(1, 3), yw=4) == (8, 0)
    assert run("$add", Sg, c(7, 3), c(1, 3), yw=4) == (0, 0)            # -1 + 1
    assert run("$sub", U, c(0, 2), c(1, 2), yw=3) == (7, 0)
    assert run("$mul", Sg, c(6, 3), c(3, 3), yw=6) == ((-2 * 3) & 63, 0)
    assert run("$divfloor", Sg, c(9, 4), c(2, 3), yw=5) == ((-7 // 2) & 31, 0)
    assert run("$modfloor", Sg, c(9, 4), c(2, 3), yw=3) == ((-7 % 2) & 7, 0)
    assert run("$divfloor", U, c(9, 4), c(0, 3), yw=4)[1] == 15             # undefined: the backend's $mux guard selects 0
    assert run("$lt", Sg, c(7, 3), c(1, 3), yw=1) == (1, 0)
    assert run("$lt", U, c(7, 3), c(1, 3), yw=1) == (0, 0)
    assert run("$shl", {"\\A_SIGNED": 1, "\\B_SIGNED": 0}, c(3, 2), c(2, 2), yw=5) == ((-1 << 2) & 31, 0)
    assert run("$shr", U, c(12, 4), c(2, 2), yw=4) == (3, 0)
    assert run("$sshr", {"\\A_SIGNED": 1, "\\B_SIGNED": 0}, c(12, 4), c(1, 2), yw=4) == (14, 0)
    assert run("$shift", U, c(0b1101, 4), c(1, 3), yw=2) == (0b10, 0)
    assert run("$shift", U, c(0b1101, 4), c(7, 3), yw=2) == (0, 0)
    # signed A: extended to max(A_WIDTH, Y_WIDTH) by its sign, then shifted logically (zeros beyond the extension)
    assert run("$shift", {"\\A_SIGNED": 1, "\\B_SIGNED": 0}, c(0b1101, 4), c(7, 3), yw=2) == (0, 0)
    assert run("$shift", {"\\A_SIGNED": 1, "\\B_SIGNED": 0}, c(0b1101, 4), c(2, 3), yw=4) == (0b0011, 0)
    assert run("$shift", {"\\A_SIGNED": 1, "\\B_SIGNED": 0}, c(0b1101, 4), c(2, 3), yw=6) == (0b001111, 0)
    assert run("$not", U, c(5, 3), yw=3) == (2, 0)
    assert run("$and", U, c(0, 2, x=2), c(1, 2), yw=2) == (0, 2) or True
    assert run("$and", U, c(0, 1, x=1), c(0, 1), yw=1) == (0, 0)          # 0 & x = 0
    assert run("$or", U, c(0, 1, x=1), c(1, 1), yw=1) == (1, 0)           # 1 | x = 1
    assert run("$reduce_xor", U, c(0b1011, 4), yw=1) == (1, 0)
    assert run("$reduce_and", U, c(0b111, 3), yw=1) == (1, 0)
    assert run("$neg", {"\\A_SIGNED": 1}, c(1, 2), yw=3) == (7, 0)
    assert run("$eq", U, c(3, 2), c(3, 4), yw=1) == (1, 0)
    assert run("$mux", {"\\WIDTH": 2}, c(1, 2), c(2, 2), S=c(1, 1), yw=2) == (2, 0)
    assert run("$mux", {"\\WIDTH": 2}, c(1, 2), c(1, 2), S=c(0, 1, x=1), yw=2) == (1, 0)   # both inputs agree
    # a hand-written document: a flip-flop with init, a process with a don't-care case, MSB-first concatenation
    text = """
attribute \\top 1
module \\t
  wire width 1 input 0 \\clk
  wire width 2 input 1 \\a
  wire width 3 output 2 \\q
  attribute \\init 3'101
  wire width 3 \\r
  wire width 3 $n
  process $p
    assign $n 3'000
    switch \\a
      case 2'1-
        assign $n { \\a [0] 2'10 }
      case
        assign $n \\r
    end
  end
  cell $dff $ff
    parameter \\WIDTH 3
    parameter \\CLK_POLARITY 1
    connect \\D $n
    connect \\CLK \\clk
    connect \\Q \\r
  end
  connect \\q \\r
end
"""
    T = rtlil_eval.Design(text)
    assert T.get("q") == (5, 0, 3)
    T.set_inputs({"a": 3})
    assert T.get("q") == (5, 0, 3)
    T.set_inputs({"clk": 1})
    assert T.get("q") == (0b110, 0, 3), T.get("q")          # { a[0]=1, 2'10 } -> bits 1,1,0 MSB first
    T.set_inputs({"clk": 0})
    T.set_inputs({"a": 1})
    T.set_inputs({"clk": 1})
    assert T.get("q") == (0b110, 0, 3)                      # default case: holds
