"""C17  Clock-domain-crossing primitives meet their latency and pulse contracts."""
from dsim.rng import stream, Digest
from dsim.simdrv import ManualRun, Violation, DomainSpec
from dsim.runner import Result, finish, run_guarded

ID = "C17"
HANG_IS_VIOLATION = True       # (a primitive wired to itself oscillates for ever)
TITLE = "Clock-domain-crossing primitives meet their latency and pulse contracts"
RULE = ("case = (primitive in {FFSynchronizer, AsyncFFSynchronizer, ResetSynchronizer, PulseSynchronizer}, width 0..8, "
        "stages 2..5, init, clock edges, async_edge, scheduler order, explicit step list over {input writes, level changes "
        "of the output clock / the other clock / the asynchronous input, alone or coincident}) from clock profiles "
        "(alternating, ratios up to 1:50, random walk, stalls, coincident) and input profiles (glitches between edges, "
        "short asynchronous pulses with the clock stalled, re-assertion during release, pulse trains at every legal "
        "spacing). Non-trivial = the output changed at least once and a fault kind fired; distinct = distinct SHA-256 "
        "of the observation trace.")
ASSUMPTIONS = [
    "Zero-delay simulator: no metastability model; contracts are functional (latency, release count, pulse count).",
    "Synchronous inputs change only between edges of the sampling clock; an asynchronous release coincident with an "
    "output-clock edge is not judged (ambiguous), an asynchronous assertion coincident with one is.",
    "Async/Reset synchroniser output is judged from the first assertion onwards (power-on state is not in the statement).",
    "PulseSynchronizer runs that break the stated precondition (no output edge strictly between two input pulses) are not judged.",
    "FFSynchronizer with a signed input: the output shows the stage value extended by the input's signedness and cut to the "
    "output's width. A fifth of the runs elaborate and simulate the very same design object a second time (identical trace).",
    "FFSynchronizer under a reset of its output domain (pulsed at arbitrary instants, in its own step): with reset_less=False "
    "every stage returns to the initial value at each output edge at which the reset is asserted and refills afterwards (the "
    "output shows the initial value for `stages` edges again); with reset_less=True (default) the reset has no effect.",
]
COMPONENTS = {"real": ["amaranth.lib.cdc.FFSynchronizer", "AsyncFFSynchronizer", "ResetSynchronizer", "PulseSynchronizer",
                       "amaranth.hdl elaboration (incl. private async_ff domain, RequirePosedge)", "amaranth.sim"],
              "stub": ["PermSet scheduler seam", "clock / async-input driver (bus wrapper)",
                       "shift-register, release-count and pulse-count models"]}
EXPECTED_PROBES = ("coincide", "stall", "ratio", "glitch-in", "inactive", "async_short_pulse", "reassert_during_release",
                   "released", "pulses", "back_to_back_pulses", "reset", "ff_reset_applied", "ff_reset_ignored_reset_less",
                   "reuse", "ff_signed_input_wider_output", "refusal_with_legal_sibling_before", "refusal_with_legal_sibling_after")

PW = [(0.5,), (0.15,), (0.85,), (1.0,)]


def _clock_walk(wl, fl, names, nsteps, levels):
    """Yield lists of clock names to toggle, by profile."""
    profs = ["alt", "ratio_a", "ratio_b", "walk", "stall_a", "stall_b", "coincide", "mixed"]
    enabled = [p for p in profs if fl.random() < 0.6] or ["walk"]
    out = []
    a, b = names
    while len(out) < nsteps:
        prof = fl.choice(enabled)
        length = wl.randint(3, 30)
        n = fl.choice([2, 3, 5, 10, 25, 50])
        for j in range(length):
            if prof == "alt":
                which = [a] if j % 2 == 0 else [b]
            elif prof == "ratio_a":
                which = [b] if j % (n + 1) == n else [a]
            elif prof == "ratio_b":
                which = [a] if j % (n + 1) == n else [b]
            elif prof == "walk":
                which = [wl.choice([a, b])]
            elif prof == "stall_a":
                which = [b]
            elif prof == "stall_b":
                which = [a]
            elif prof == "coincide":
                which = [a, b]
            else:
                r = wl.random()
                which = [a, b] if r < 0.34 else ([a] if r < 0.67 else [b])
            out.append(which)
    return out


def gen_case(seed, tier):
    cfg = stream(seed, "cfg")
    wl = stream(seed, "workload")
    fl = stream(seed, "faults")
    sc = stream(seed, "sched")
    kind = cfg.choice(["ff", "ff", "async", "reset", "pulse", "pulse", "pulse_tl"])
    stages = cfg.choice([2, 2, 3, 4, 5] + ([6, 8] if tier == "thorough" else []))
    if kind == "pulse_tl":
        # timeline mode: real clock processes with seeded integer-femtosecond periods / phases, testbenches awaiting ticks
        per = [2, 4, 6, 10, 14, 20, 50, 100, 250]
        pi, po = cfg.choice(per), cfg.choice(per)
        phi = cfg.choice([None, 1, 2, pi // 2, pi, 3])
        pho = cfg.choice([phi, None, 1, po // 2, po + 1, 5])
        config = {"kind": kind, "stages": stages, "i_edge": cfg.choice(["pos", "neg"]), "o_edge": cfg.choice(["pos", "neg"]),
                  "pi": pi, "po": po, "phi": phi, "pho": pho}
        n = cfg.randint(2, 12) if tier == "quick" else cfg.randint(2, 40)
        return {"config": config, "sched": {"mode": sc.choice(["seeded", "seeded", "reverse", "insertion"]),
                                            "seed": sc.randrange(1 << 32)},
                "steps": [{"gap": wl.choice([0, 0, 1, 2, wl.randint(0, 6)])} for _ in range(n)]}
    config = {"kind": kind, "stages": stages}
    nsteps = cfg.randint(30, 250) if tier == "quick" else cfg.randint(30, 1200)
    steps = []
    levels = {}
    if kind == "ff":
        w = cfg.choice([0, 1, 1, 2, 3, 4, 8])
        config.update(width=w, init=cfg.randrange(1 << w), o_edge=cfg.choice(["pos", "neg"]),
                      reset_less=cfg.random() < 0.7)
        # a signed input into a wider (signed or unsigned) output: every stage must keep the input's shape
        config.update(i_signed=(w >= 1 and cfg.random() < 0.35), o_extra=cfg.choice([0, 0, 1, 3]), o_signed=cfg.random() < 0.5)
        levels = {"o": 0, "x": 0}
        p_set = wl.choice([0.2, 0.5, 0.9, 1.5])
        p_rst = fl.choice([0, 0, 0.03, 0.1])
        rlevel = 0
        for which in _clock_walk(wl, fl, ("o", "x"), nsteps, levels):
            r = p_set
            while wl.random() < r:       # possibly several input changes between two edges (glitch-in)
                steps.append({"k": "set", "i": wl.randrange(1 << w)})
                r -= 0.6
            ch = {}
            for nme in which:
                levels[nme] ^= 1
                ch[nme] = levels[nme]
            steps.append({"k": "ev", "l": ch})
            # the output domain's (synchronous) reset, pulsed at arbitrary instants: a resettable synchroniser returns to its
            # initial value at the next output edge and refills; a reset-less one (the default) must ignore it
            if p_rst and fl.random() < p_rst:
                rlevel ^= 1
                steps.append({"k": "ev", "l": {"r": rlevel}})
    elif kind in ("async", "reset"):
        config.update(async_edge=cfg.choice(["pos", "neg"]) if kind == "async" else "pos")
        # the primitive needs a rising-edge output domain and must refuse a falling-edge one wherever it is defined, e.g.
        # in a submodule, shadowing a rising-edge domain of the same name above it
        config["shadow_neg"] = cfg.random() < 0.08
        # the output domain may have any name, including the one the primitive uses internally for its private domain
        config["o_name"] = cfg.choice(["o", "o", "async_ff", "reset_sync"])
        # ... or when another, legal, instance of the primitive was added to the design before / after the offending one
        config["shadow_sibling"] = cfg.choice([None, "before", "after"])
        levels = {"o": 0, "x": 0, "a": 0}
        p_a = wl.choice([0.05, 0.15, 0.4])
        for which in _clock_walk(wl, fl, ("o", "x"), nsteps, levels):
            if wl.random() < p_a:
                r = wl.random()
                if r < 0.3:      # short pulse with no clock edge in between
                    for _ in range(2):
                        levels["a"] ^= 1
                        steps.append({"k": "ev", "l": {"a": levels["a"]}})
                elif r < 0.5 and "o" in which:
                    # change of the asynchronous input in the same instant as a clock event
                    levels["a"] ^= 1
                    ch = {"a": levels["a"]}
                    for nme in which:
                        levels[nme] ^= 1
                        ch[nme] = levels[nme]
                    steps.append({"k": "ev", "l": ch})
                    continue
                else:
                    levels["a"] ^= 1
                    steps.append({"k": "ev", "l": {"a": levels["a"]}})
            ch = {}
            for nme in which:
                levels[nme] ^= 1
                ch[nme] = levels[nme]
            steps.append({"k": "ev", "l": ch})
    else:
        config.update(i_edge=cfg.choice(["pos", "neg"]), o_edge=cfg.choice(["pos", "neg"]))
        levels = {"i": 0, "o": 0}
        i_act = 1 if config["i_edge"] == "pos" else 0
        o_act = 1 if config["o_edge"] == "pos" else 0
        p_pulse = wl.choice([0.1, 0.3, 0.6, 1.0])
        p_prst = fl.choice([0, 0, 0.03, 0.1])
        config["pulse_resets"] = bool(p_prst)
        rlevels = {"ri": 0, "ro": 0}
        pending = False    # a pulse was sampled and no output edge has happened strictly after it
        i_val = 0
        for which in _clock_walk(wl, fl, ("i", "o"), nsteps, levels):
            i_edge = "i" in which and (levels["i"] ^ 1) == i_act
            o_edge = "o" in which and (levels["o"] ^ 1) == o_act
            if i_edge:
                want = 1 if (wl.random() < p_pulse and not pending) else 0
                if fl.random() < 0.2:
                    steps.append({"k": "set", "i": 1 - want})    # glitch on i before it settles
                    i_val = 1 - want
                if want != i_val:
                    steps.append({"k": "set", "i": want})
                    i_val = want
            async_glitch = ("i" not in which) and i_val == 0 and fl.random() < 0.12
            if async_glitch:
                # the input rises and falls *between* two input-clock edges while the output clock keeps running:
                # it is never sampled, so no pulse may come out
                steps.append({"k": "set", "i": 1})
            ch = {}
            for nme in which:
                levels[nme] ^= 1
                ch[nme] = levels[nme]
            steps.append({"k": "ev", "l": ch})
            if p_prst and fl.random() < p_prst:
                # an (ordinary, synchronous) reset of the input or the output domain, pulsed at an arbitrary instant: no pulse may
                # be invented or lost because of it
                rn = fl.choice(["ri", "ro"])
                rlevels[rn] ^= 1
                steps.append({"k": "ev", "l": {rn: rlevels[rn]}})
            if async_glitch:
                steps.append({"k": "set", "i": 0})
            if o_edge:
                pending = False
            if i_edge and i_val:
                pending = True
    case = {"config": config, "sched": {"mode": sc.choice(["seeded", "seeded", "reverse", "insertion"]),
                                        "seed": sc.randrange(1 << 32)}, "steps": steps, "reuse": fl.random() < 0.2}
    from dsim import vendors
    # every vendor platform may substitute its own implementation of the primitives: the contracts are those of the primitive.
    # (a) where the substitute is ordinary logic (Xilinx FFSynchronizer, hence PulseSynchronizer too) the whole run is made with it;
    # (b) otherwise the primitive, with plain or value-castable (enum / struct) signals, must at least elaborate down to the netlist
    if kind in ("ff", "pulse") and fl.random() < 0.3:
        config["platform"] = fl.choice(["xc7", "xc6s", "xc3s"])
    config["vendor"] = {"platform": fl.choice(vendors.NAMES), "castable": fl.choice([None, None, "enum", "struct"]),
                        "default_init": fl.random() < 0.3, "comb_domain": fl.random() < 0.1}         # (no init= given: the stages start at the shape's default)
    case["rerun"] = fl.random() < 0.2
    config["sibling_first"] = fl.random() < 0.3
    if kind in ("ff", "pulse"):
        config["o_async"] = fl.random() < 0.4      # the (pulsed) reset of the output domain is asynchronous
    if kind in ("async", "reset") and not config.get("shadow_neg"):
        names = [n_ for n_ in ("async_ff", "reset_sync", "src") if n_ != config.get("o_name")]
        config["i_reset_of"] = fl.choice([None, None] + names)
    return case


def _first_edge(period, phase, edge):
    ph = phase if phase is not None else period // 2
    return ph + (0 if edge == "pos" else period // 2)


def _next_edge_after(t, period, first):
    if t < first:
        return first
    return first + ((t - first) // period + 1) * period


def run_pulse_timeline(case):
    """PulseSynchronizer under add_clock(): pulses spaced so that an output edge falls strictly between two of them."""
    from amaranth.hdl import Period, Module, ClockDomain, Elaboratable
    from amaranth.sim import Simulator
    from amaranth.lib import cdc
    from dsim.permset import scheduler
    c = case["config"]
    res = Result()
    dig = Digest()
    stats = {"steps": 0, "edges": 0, "sim_fs": 0, "faults": {"coincide": 0, "stall": 0, "ratio": 0, "glitch-in": 0, "inactive": 0},
             "probes": {"out_changes": 0, "pulses": 0, "timeline_runs": 1, "back_to_back_pulses": 0}}
    fi = _first_edge(c["pi"], c["phi"], c["i_edge"])
    fo = _first_edge(c["po"], c["pho"], c["o_edge"])
    if (fi - fo) % min(c["pi"], c["po"]) == 0:
        stats["faults"]["coincide"] += 1
    if max(c["pi"], c["po"]) >= 5 * min(c["pi"], c["po"]):
        stats["faults"]["ratio"] += 1

    def go():
        with scheduler(case["sched"]["mode"], case["sched"]["seed"]) as S:
            dut = cdc.PulseSynchronizer("i", "o", stages=c["stages"])

            class Top(Elaboratable):
                def elaborate(self, platform):
                    m = Module()
                    m.domains.i = ClockDomain(clk_edge=c["i_edge"], reset_less=True)
                    m.domains.o = ClockDomain(clk_edge=c["o_edge"], reset_less=True)
                    m.submodules.dut = dut
                    return m
            sim = Simulator(Top())
            for dom, p, ph in (("i", c["pi"], c["phi"]), ("o", c["po"], c["pho"])):
                kw = {"phase": Period(fs=ph)} if ph is not None else {}
                sim.add_clock(Period(fs=p), domain=dom, **kw)
            sent = [0]
            seen = [0]
            done = [False]

            async def producer(ctx):
                for st in case["steps"]:
                    # next sampling edge of the input domain at which i = 1
                    await ctx.tick("i")
                    t_edge = ctx.elapsed_time().femtoseconds
                    # make sure an output edge lies strictly between the previous pulse's sampling edge and this one's
                    ctx.set(dut.i, 1)
                    await ctx.tick("i")
                    t_pulse = ctx.elapsed_time().femtoseconds
                    ctx.set(dut.i, 0)
                    sent[0] += 1
                    stats["probes"]["pulses"] += 1
                    # wait until some output edge has happened strictly after t_pulse, and strictly before the next
                    # sampling edge (which is the second tick from now at the earliest)
                    t_o = _next_edge_after(t_pulse, c["po"], fo)
                    while True:
                        nxt_sample = _next_edge_after(_next_edge_after(ctx.elapsed_time().femtoseconds, c["pi"], fi), c["pi"], fi)
                        if t_o < nxt_sample:
                            break
                        await ctx.tick("i")
                    for _ in range(st["gap"]):
                        await ctx.tick("i")
                    stats["steps"] += 1
                # flush
                for _ in range(c["stages"] + 3):
                    await ctx.tick("o")
                done[0] = True

            async def counter(ctx):
                last = 0
                async for clk, rst, o in ctx.tick("o").sample(dut.o):
                    if o:
                        seen[0] += 1
                        if last:
                            stats["probes"]["back_to_back_pulses"] += 1
                        stats["probes"]["out_changes"] += 1
                    last = o
                    dig.add((ctx.elapsed_time().femtoseconds, int(o)), state=False)
                    if seen[0] > sent[0]:
                        raise Violation("pulse_spurious", -1, {"out_cycles": seen[0], "in_pulses": sent[0],
                                                               "t_fs": ctx.elapsed_time().femtoseconds})

            sim.add_testbench(producer)
            sim.add_testbench(counter, background=True)
            sim.run()
            # the counter observes o *before* each edge: one more output cycle to observe the last value
            stats["sim_fs"] = sim._engine.now
            stats["decisions"] = S.decisions
            if seen[0] != sent[0]:
                raise Violation("pulse_count", len(case["steps"]), {"out_cycles": seen[0], "in_pulses": sent[0],
                                                                    "stages": c["stages"], "config": c})
    run_guarded(res, go)
    return finish(res, dig, stats, stats["probes"]["pulses"] > 0)


def vendor_ridealong(config, P):
    """The primitive elaborated by a vendor platform's own code, down to the netlist (no toolchain runs): a legal instance is never
    refused, whatever platform it is built for."""
    import traceback
    import warnings
    from amaranth.hdl import Signal, Module, ClockDomain
    from amaranth.lib import cdc, enum, data
    from amaranth.back import rtlil
    from dsim import vendors
    vb = config["vendor"]
    kind, stages = config["kind"], config["stages"]
    if vb.get("comb_domain"):
        # "comb" is not a clock domain: there is no edge to count stages in, so it must be refused (when the primitive is made, or
        # at the latest when it is elaborated), not silently turned into a wire
        def attempt():
            i, o = Signal(2, name="i"), Signal(2, name="o")
            mm = Module()
            mm.domains.sync = ClockDomain("sync")
            if kind == "ff":
                mm.submodules.dut = cdc.FFSynchronizer(i, o, o_domain="comb", stages=stages)
            elif kind == "async":
                mm.submodules.dut = cdc.AsyncFFSynchronizer(i[0], o[0], o_domain="comb", stages=stages)
            elif kind == "reset":
                mm.submodules.dut = cdc.ResetSynchronizer(i[0], domain="comb", stages=stages)
            else:
                mm.submodules.dut = cdc.PulseSynchronizer("sync", "comb", stages=stages)
            with warnings.catch_warnings():
                warnings.simplefilter("ignore")
                rtlil.convert(mm, ports=[i, o])
        try:
            attempt()
        except Exception:
            P["comb_output_domain_refused"] = 1
        else:
            raise Violation("comb_output_domain_accepted", -1, {"kind": kind, "stages": stages})
    m = Module()
    on_ = config.get("o_name", "o") if kind in ("async", "reset") else "o"       # (any name, the primitives' private ones included)
    m.domains += ClockDomain(on_)
    m.domains.i = ClockDomain("i")
    if kind == "ff":
        w = max(1, config["width"])
        if vb["castable"] == "enum":
            class E(enum.Enum, shape=w):
                A = 0
                B = (1 << w) - 1
            i, o = Signal(E, name="i"), Signal(E, name="o")
            init = E.A
        elif vb["castable"] == "struct":
            L = data.StructLayout({"a": 1, "b": w})
            i, o = Signal(L, name="i"), Signal(L, name="o")
            init = {"a": 1, "b": 0}
        else:
            i, o = Signal(w, name="i"), Signal(w, name="o")
            init = config["init"] & ((1 << w) - 1)
        if vb.get("default_init"):
            m.submodules.dut = cdc.FFSynchronizer(i, o, o_domain="o", stages=stages, reset_less=config["reset_less"])
            P["vendor_default_init"] = 1
        else:
            m.submodules.dut = cdc.FFSynchronizer(i, o, o_domain="o", stages=stages, init=init, reset_less=config["reset_less"])
        ports = [i, o]
    elif kind == "async":
        i, o = Signal(name="i"), Signal(name="o")
        m.submodules.dut = cdc.AsyncFFSynchronizer(i, o, o_domain=on_, stages=stages, async_edge=config["async_edge"])
        ports = [i, o]
    elif kind == "reset":
        i = Signal(name="arst")
        m.submodules.dut = cdc.ResetSynchronizer(i, domain=on_, stages=stages)
        ports = [i]
    else:
        dut = cdc.PulseSynchronizer("i", "o", stages=stages)
        m.submodules.dut = dut
        ports = [dut.i, dut.o]
    with warnings.catch_warnings():
        warnings.simplefilter("ignore")
        try:
            from amaranth.hdl import ClockSignal
            text = rtlil.convert(m, platform=vendors.make(vb["platform"]),
                                 ports=[Value_cast(p) for p in ports] + [ClockSignal(on_), ClockSignal("i")])
        except Exception as e:
            last = traceback.extract_tb(e.__traceback__)[-1].filename
            raise Violation("vendor_primitive_refused", -1, dict(vb, kind=kind, stages=stages, raised=type(e).__name__,
                                                                 msg=str(e)[:200], where=last.split("amaranth/")[-1]))
    # whatever cells the platform substitutes, those with a clock input are clocked by the output domain's clock: a constant there
    # means the stages never see an edge
    import re
    for mm in re.finditer(r"^\s*cell (\\\S+) (\S+)\n(.*?)^\s*end$", text, re.M | re.S):
        for pin in ("C", "clk", "CLK"):
            c = re.search(r"^\s*connect \\" + pin + r" (\S+)", mm.group(3), re.M)
            if c and re.fullmatch(r"1'[01x]", c.group(1)):
                raise Violation("vendor_primitive_clock_tied_off", -1, dict(vb, kind=kind, cell=mm.group(1), pin=pin, net=c.group(1),
                                                                            o_domain=on_))
    P["vendor_" + vb["platform"]] = 1
    if vb["castable"] and kind == "ff":
        P["vendor_value_castable"] = 1


def Value_cast(v):
    from amaranth.hdl import Value
    return Value.cast(v)


def run_case(case):
    if case["config"]["kind"] == "pulse_tl":
        return run_pulse_timeline(case)
    from amaranth.hdl import Signal, Module
    from amaranth.lib import cdc
    config = case["config"]
    kind = config["kind"]
    stages = config["stages"]
    res = Result()
    dig = Digest()
    stats = {"steps": 0, "edges": 0,
             "faults": {"coincide": 0, "stall": 0, "ratio": 0, "glitch-in": 0, "inactive": 0},
             "probes": {"out_changes": 0}}
    P = stats["probes"]
    extra_lines = None
    if kind == "ff":
        from amaranth.hdl import signed, unsigned
        w_ = config["width"]
        i_signed = bool(config.get("i_signed")) and w_ >= 1
        ow_ = w_ + config.get("o_extra", 0)
        i = Signal(signed(w_) if i_signed else unsigned(w_), name="i")
        o = Signal(signed(ow_) if (config.get("o_signed") and ow_ >= 1) else unsigned(ow_), name="o")
        init_ = config["init"] - (1 << w_) if (i_signed and config["init"] >> (w_ - 1)) else config["init"]
        dut = cdc.FFSynchronizer(i, o, o_domain="o", init=init_, stages=stages,
                                 reset_less=config["reset_less"])
        if i_signed:
            P["ff_signed_input"] = 1
            if ow_ > w_:
                P["ff_signed_input_wider_output"] = 1
        domains = [DomainSpec("o", edge=config["o_edge"], async_reset=bool(config.get("o_async"))), DomainSpec("x")]
    elif kind == "async":
        from amaranth.hdl import ResetSignal
        irn = config.get("i_reset_of")      # the asynchronous input is the reset of another domain (of any name), late bound
        i = ResetSignal(irn) if irn else Signal(name="i")
        o = Signal(name="o")
        dut = cdc.AsyncFFSynchronizer(i, o, o_domain=config.get("o_name", "o"), stages=stages, async_edge=config["async_edge"])
        domains = [DomainSpec(config.get("o_name", "o")), DomainSpec("x")] + ([DomainSpec(irn)] if irn else [])
        extra_lines = None if irn else {"a": i}
        P.update(async_short_pulse=0, reassert_during_release=0, released=0, assert_coincident_with_edge=0)
    elif kind == "reset":
        from amaranth.hdl import ResetSignal
        irn = config.get("i_reset_of")
        i = ResetSignal(irn) if irn else Signal(name="arst")
        dut = cdc.ResetSynchronizer(i, domain=config.get("o_name", "o"), stages=stages)
        domains = [DomainSpec(config.get("o_name", "o"), drive_rst=False), DomainSpec("x")] + ([DomainSpec(irn)] if irn else [])
        extra_lines = None if irn else {"a": i}
        o = None
        P.update(async_short_pulse=0, reassert_during_release=0, released=0, assert_coincident_with_edge=0)
    else:
        dut = cdc.PulseSynchronizer("i", "o", stages=stages)
        i, o = dut.i, dut.o
        domains = [DomainSpec("i", edge=config["i_edge"], reset_less=not config.get("pulse_resets"),
                              async_reset=bool(config.get("pulse_resets") and config.get("o_async"))),
                   DomainSpec("o", edge=config["o_edge"], reset_less=not config.get("pulse_resets"),
                              async_reset=bool(config.get("pulse_resets") and config.get("o_async")))]
        P.update(pulses=0, back_to_back_pulses=0, precondition_broken=0, coincident_pulse_and_o_edge=0, unsampled_input_glitch=0)
    if config.get("shadow_neg"):
        from amaranth.hdl import ClockDomain, Elaboratable
        from amaranth.hdl._ir import DomainRequirementFailed
        from amaranth.sim import Simulator
        inner = dut

        class Shadow(Elaboratable):
            def elaborate(self, platform):
                m = Module()
                m.domains += ClockDomain(config.get("o_name", "o"), clk_edge="neg")
                m.submodules.inner = inner
                return m

        sib_where = config.get("shadow_sibling")

        class Outer(Elaboratable):
            def elaborate(self, platform):
                m = Module()
                m.domains += ClockDomain(config.get("o_name", "o"))
                m.domains.ok = ClockDomain("ok")
                if sib_where:
                    # a legal instance on a rising-edge domain, added before or after the offending one
                    si, so = Signal(name="sib_i"), Signal(name="sib_o")
                    sib = cdc.AsyncFFSynchronizer(si, so, o_domain="ok") if kind == "async" else cdc.ResetSynchronizer(si, domain="ok")
                    P["refusal_with_legal_sibling_" + sib_where] = 1
                if sib_where == "before":
                    m.submodules.sib = sib
                m.submodules.sub = Shadow()
                if sib_where == "after":
                    m.submodules.sib = sib
                return m

        def refuse():
            try:
                Simulator(Outer())
            except DomainRequirementFailed:
                P["negedge_domain_refused"] = P.get("negedge_domain_refused", 0) + 1
                return
            raise Violation("negedge_domain_accepted", -1, {"kind": kind, "stages": stages})
        run_guarded(res, refuse)
        dig.add(("shadow_neg", kind, stages))
        return finish(res, dig, stats, True)
    if kind in ("async", "reset") and config.get("sibling_first") and not config.get("shadow_neg"):
        # another synchroniser of the same kind, on the unrelated domain "x", comes first in the design: every instance has its
        # own private domain, whatever the others are called
        from amaranth.hdl import Elaboratable
        sib_in = Signal(name="sib_arst")
        sib = cdc.ResetSynchronizer(sib_in, domain="x", stages=2)
        inner_dut = dut

        class WithSibling(Elaboratable):
            def elaborate(self, platform):
                m = Module()
                m.submodules.sib = sib
                m.submodules.inner = inner_dut
                return m
        dut = WithSibling()
        P["sibling_synchroniser_first"] = 1
    if config.get("vendor"):
        run_guarded(res, lambda: vendor_ridealong(config, P))
        if res.violation:
            return finish(res, dig, stats, True)
    if config.get("platform"):
        from dsim import vendors
        dut = vendors.on_platform(dut, vendors.make(config["platform"]))
        P["run_on_" + config["platform"]] = 1
    run = ManualRun(dut, domains, sched_mode=case["sched"]["mode"], sched_seed=case["sched"]["seed"],
                    extra_lines=extra_lines)
    if kind == "reset":
        o = run.top.cds[config.get("o_name", "o")].rst
    act = {d["name"]: (1 if d["edge"] == "pos" else 0) for d in domains}
    act.setdefault("o", 1)        # (steps always call the output clock "o", whatever the domain is named)

    def body(drv):
        lv = {}
        for d in domains:
            lv[d["name"]] = 0
        lv.setdefault("o", 0)
        if extra_lines or config.get("i_reset_of"):
            lv["a"] = 0
        if kind == "ff":
            lv["r"] = 0
        if kind == "pulse":
            lv["ri"] = lv["ro"] = 0
        i_val = 0
        sets_since = 0
        same = [None, 0]
        # models
        sr = [config.get("init", 0)] * stages
        mask = (1 << config.get("width", 1)) - 1
        o_sig = drv.top.cds[config.get("o_name", "o")].rst if kind == "reset" else o
        omask = (1 << len(o_sig)) - 1

        def get_o():
            return drv.get(o_sig) & omask

        def ext(v):
            """a stage's bit pattern as the output shows it: extended by the input's signedness, cut to the output's width"""
            w_ = config.get("width", 1)
            if kind == "ff" and config.get("i_signed") and w_ >= 1 and (v >> (w_ - 1)) & 1:
                v -= 1 << w_
            return v & omask
        a_edge = config.get("async_edge", "pos")
        asserted = (a_edge == "neg") if kind in ("async", "reset") else False
        armed = asserted
        cnt = None
        judged = True
        edges_since_assert_change = 1
        pulses = 0
        ocycles = 0
        pending = False
        stop = False
        last_o = get_o()
        if kind == "ff" and last_o != ext(config["init"] & mask):
            raise Violation("ff_initial_output", -1, {"o": last_o, "init": config["init"]})
        if kind == "pulse" and last_o != 0:
            raise Violation("pulse_initial_output", -1, {"o": last_o})
        if kind in ("async", "reset") and asserted and last_o != 1:
            raise Violation("async_not_asserted", -1, {"o": last_o})

        steps = list(case["steps"])
        n_user = len(steps)
        if kind == "pulse":
            # flush tail: i = 0, then stages + 2 output cycles
            steps.append({"k": "set", "i": 0})
            for _ in range(stages + 2):
                steps.append({"k": "ev", "l": {"o": "toggle"}})
                steps.append({"k": "ev", "l": {"o": "toggle"}})
        for idx, st in enumerate(steps):
            drv.begin_step(idx)
            stats["steps"] += 1
            o_edge = False
            if st["k"] == "set":
                v = st["i"] & mask
                if v != i_val:
                    i_val = v
                    w_ = config.get("width", 1)
                    drv.set(i, v - (1 << w_) if (kind == "ff" and config.get("i_signed") and w_ >= 1 and v >> (w_ - 1)) else v)
                sets_since += 1
                if sets_since == 2:
                    stats["faults"]["glitch-in"] += 1
            else:
                changes = {}
                clk_changes = 0
                a_change = None
                edge = {}
                for nme, lvl in st["l"].items():
                    if lvl == "toggle":
                        lvl = 1 - lv[nme]
                    if lv[nme] == lvl:
                        continue
                    lv[nme] = lvl
                    if nme == "a":
                        changes[(config["i_reset_of"] + ".rst") if config.get("i_reset_of") else "a"] = lvl
                        a_change = lvl
                    elif nme in ("r", "ri", "ro"):
                        changes["i.rst" if nme == "ri" else "o.rst"] = lvl
                        stats["faults"]["reset"] = stats["faults"].get("reset", 0) + 1
                    else:
                        changes[(config.get("o_name", "o") if (nme == "o" and kind in ("async", "reset")) else nme) + ".clk"] = lvl
                        clk_changes += 1
                        stats["edges"] += 1
                        edge[nme] = (lvl == act[nme])
                if clk_changes == 2 or (clk_changes >= 1 and a_change is not None):
                    stats["faults"]["coincide"] += 1
                if clk_changes == 1:
                    nm = next(k for k in changes if k.endswith(".clk"))
                    if same[0] == nm:
                        same[1] += 1
                        if same[1] == 4:
                            stats["faults"]["ratio"] += 1
                        if same[1] == 12:
                            stats["faults"]["stall"] += 1
                    else:
                        same[0], same[1] = nm, 1
                elif clk_changes == 2:
                    same[0], same[1] = None, 0
                if changes:
                    drv.drive(changes)
                o_edge = edge.get("o", False)
                if clk_changes and not any(edge.values()):
                    stats["faults"]["inactive"] += 1
                if kind == "ff" and config.get("o_async") and lv.get("r") and not config["reset_less"]:
                    # an asynchronous reset holds resettable stages at their initial value from the moment it rises
                    sr = [config.get("init", 0)] * stages
                    P["ff_async_reset_applied"] = P.get("ff_async_reset_applied", 0) + 1
                if kind == "ff":
                    if edge.get("x") and not o_edge:
                        stats["faults"]["inactive"] += 1
                    if o_edge:
                        if lv.get("r") and not config["reset_less"]:
                            sr = [config.get("init", 0)] * stages
                            P["ff_reset_applied"] = P.get("ff_reset_applied", 0) + 1
                        else:
                            if lv.get("r"):
                                P["ff_reset_ignored_reset_less"] = P.get("ff_reset_ignored_reset_less", 0) + 1
                            sr = [i_val] + sr[:-1]
                        sets_since = 0
                elif kind in ("async", "reset"):
                    now_asserted = asserted
                    if a_change is not None:
                        now_asserted = (a_change == 1) if a_edge == "pos" else (a_change == 0)
                    if now_asserted and not asserted:
                        if o_edge:
                            P["assert_coincident_with_edge"] += 1
                        if cnt is not None and cnt < stages and judged:
                            P["reassert_during_release"] += 1
                        armed = True
                        judged = True
                        cnt = None
                        edges_since_assert_change = 0
                    elif asserted and not now_asserted:
                        if edges_since_assert_change == 0:
                            P["async_short_pulse"] += 1
                        cnt = 0
                        if o_edge:
                            judged = False      # release coincident with a clock edge: not judged
                        edges_since_assert_change = 0
                    elif o_edge:
                        edges_since_assert_change += 1
                        if not now_asserted and cnt is not None:
                            cnt += 1
                            if cnt == stages and judged:
                                P["released"] += 1
                    asserted = now_asserted
                else:
                    i_edge = edge.get("i", False)
                    if i_edge:
                        sets_since = 0
                        if i_val:
                            if pending:
                                P["precondition_broken"] += 1
                                stop = True
                            pulses += 1
                            P["pulses"] += 1
                            pending = True
                            if o_edge:
                                P["coincident_pulse_and_o_edge"] += 1
                    if o_edge and not (i_edge and i_val):
                        # (an output edge coincident with the pulse's own input edge samples the old toggle:
                        # it does not count as "after" that pulse)
                        pending = False
            if stop:
                break
            cur = get_o()
            if cur != last_o:
                P["out_changes"] += 1
            # oracles
            if kind == "ff":
                if cur != ext(sr[-1]):
                    raise Violation("ff_latency", idx, {"o": cur, "expected": ext(sr[-1]), "stages": stages, "chain": list(sr),
                                                        "input_signed": bool(config.get("i_signed")), "o_width": len(o)})
            elif kind in ("async", "reset"):
                if armed and judged:
                    if asserted:
                        exp = 1
                    else:
                        exp = 1 if cnt < stages else 0
                    if cur != exp:
                        raise Violation("async_assert" if asserted else "async_release_count", idx,
                                        {"o": cur, "expected": exp, "edges_since_release": cnt, "stages": stages})
            else:
                if cur != last_o and not o_edge:
                    raise Violation("pulse_output_changed_between_edges", idx, {"before": last_o, "after": cur})
                if o_edge and cur:
                    ocycles += 1
                    if idx > 0 and last_o == 1:
                        P["back_to_back_pulses"] += 1
                if ocycles > pulses:
                    raise Violation("pulse_spurious", idx, {"out_cycles": ocycles, "in_pulses": pulses})
            last_o = cur
            dig.add((st["k"], sorted(lv.items()), i_val, cur))
        if kind == "pulse" and not stop and ocycles != pulses:
            raise Violation("pulse_count", len(steps) - 1, {"out_cycles": ocycles, "in_pulses": pulses, "stages": stages})

    run_guarded(res, lambda: run.run(body))
    if res.violation is None and res.harness_error is None and case.get("reuse"):
        # second use of the very same design object: elaborated and simulated again, it must behave identically
        first = dig.restart()
        run2 = ManualRun(dut, domains, sched_mode=case["sched"]["mode"], sched_seed=case["sched"]["seed"], extra_lines=extra_lines)
        run_guarded(res, lambda: run2.run(body))
        stats["faults"]["reuse"] = stats["faults"].get("reuse", 0) + 1
        if res.violation is None and dig.hexdigest() != first:
            res.violation = {"oracle": "second_use_of_same_object_differs", "step": -1, "detail": {}}
    if res.violation is None and res.harness_error is None and case.get("rerun"):
        # the same simulator after Simulator.reset(): every stage (reset-less ones too) is back at its initial value, and the
        # same schedule gives the same behaviour
        first = dig.restart()
        run_guarded(res, lambda: run.rerun(body))
        stats["faults"]["sim_reset"] = stats["faults"].get("sim_reset", 0) + 1
        if res.violation is None and dig.hexdigest() != first:
            res.violation = {"oracle": "differs_after_simulator_reset", "step": -1, "detail": {}}
    stats["decisions"] = run.decisions
    dig.add_events(run.events)
    nontrivial = P["out_changes"] > 0 and any(stats["faults"].values())
    return finish(res, dig, stats, nontrivial)


def signature(case, violation):
    c = case["config"]
    sig = {"oracle": violation["oracle"], "kind": c["kind"], "stages": c["stages"]}
    if violation["oracle"] == "exception":
        sig["exc"] = violation["detail"].get("type")
    return sig


def simplify(case):
    c = case["config"]
    if c["kind"] == "pulse_tl":
        for k in ("phi", "pho"):
            if c[k] is not None:
                yield dict(case, config=dict(c, **{k: None}))
        return
    if c["stages"] > 2:
        yield dict(case, config=dict(c, stages=2))
    if c["kind"] == "ff" and c["width"] > 1:
        steps = [({"k": "set", "i": s["i"] & 1} if s["k"] == "set" else s) for s in case["steps"]]
        yield dict(case, config=dict(c, width=1, init=c["init"] & 1), steps=steps)
    # split coincident events
    for i, s in enumerate(case["steps"]):
        if s["k"] == "ev" and len(s["l"]) >= 2:
            steps = list(case["steps"])
            steps[i:i + 1] = [{"k": "ev", "l": {k: v}} for k, v in s["l"].items()]
            yield dict(case, steps=steps)
            break
