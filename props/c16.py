"""C16  CRC software and hardware agree with the Williams model for all parameters."""
import json
import os

from dsim.rng import stream, Digest
from dsim.simdrv import ManualRun, Violation, DomainSpec
from dsim.runner import Result, finish, run_guarded

ID = "C16"
TITLE = "CRC software and hardware agree with the Williams model for all parameters"
RULE = ("case = (catalogue entry - the config stream cycles through all catalogue names so that a quick run hits every entry - "
        "or a random valid parameter set with crc_width 1..64; data width in {1,2,3,4,5,7,8,16,crc_width,2*crc_width}; clock edge; "
        "scheduler order; explicit step list of (start, valid, data) writes and clock level changes) with idle gaps, lone "
        "starts, start+valid, restarts mid-message, back-to-back messages, data glitches while valid is low, inactive edges, and "
        "messages followed by their own CRC in transmission order or by a corrupted / random trailer. Non-trivial = at least two "
        "valid words were processed and a fault kind fired; distinct = distinct SHA-256 of the observation trace.")
ASSUMPTIONS = [
    "Reference: independent bit-serial Williams/Rocksoft register model (props/c16.py::williams), no Amaranth import.",
    "Published check values: table shipped in tests/test_lib_crc.py (reveng catalogue), snapshot in props/crc_checks.json.",
    "Trailer in transmission order = register bits MSB first (output-reflected value re-reflected), packed into data words, "
    "each word bit-reversed when reflect_input; 'no other trailer matches' is asserted only for odd polynomials (x^n is then "
    "invertible modulo the generator, making trailer -> final register a bijection).",
    "Inputs change only between clock edges; no domain reset applied.",
]
COMPONENTS = {"real": ["amaranth.lib.crc.Algorithm/Parameters.compute/residue/_matrices", "amaranth.lib.crc.Processor",
                       "amaranth.lib.crc.catalog", "amaranth.hdl elaboration", "amaranth.sim"],
              "stub": ["PermSet scheduler seam", "clock driver", "bit-serial Williams model"]}
EXPECTED_PROBES = ("idle-gap", "restart", "lone-start", "start+valid", "glitch-in", "inactive", "own_trailer_match",
                   "other_trailer_nomatch", "catalogue_check_value", "second_processor_of_same_parameters", "compute_from_iterator")

with open(os.path.join(os.path.dirname(__file__), "crc_checks.json")) as _f:
    CHECKS = json.load(_f)
NAMES = sorted(CHECKS)


def reflect(v, n):
    r = 0
    for k in range(n):
        if (v >> k) & 1:
            r |= 1 << (n - 1 - k)
    return r


def williams_reg(p, words, dw, reg=None):
    """Bit-serial register after feeding `words` (each dw bits), starting from `reg` (default: init)."""
    n = p["crc_width"]
    mask = (1 << n) - 1
    poly = p["polynomial"]
    if reg is None:
        reg = p["initial_crc"]
    for w in words:
        rng = range(dw) if p["reflect_input"] else range(dw - 1, -1, -1)
        for k in rng:
            fb = ((reg >> (n - 1)) & 1) ^ ((w >> k) & 1)
            reg = (reg << 1) & mask
            if fb:
                reg ^= poly
    return reg


def williams_out(p, reg):
    n = p["crc_width"]
    return (reflect(reg, n) if p["reflect_output"] else reg) ^ p["xor_output"]


def williams(p, words, dw):
    return williams_out(p, williams_reg(p, words, dw))


def trailer_words(p, crc_out, dw):
    """The CRC in transmission order as data words (crc_width must be a multiple of dw)."""
    n = p["crc_width"]
    x = reflect(crc_out, n) if p["reflect_output"] else crc_out
    words = []
    for c in range(n // dw):
        chunk = (x >> (n - dw * (c + 1))) & ((1 << dw) - 1)
        words.append(reflect(chunk, dw) if p["reflect_input"] else chunk)
    return words


def params_of(config):
    if config.get("name"):
        from amaranth.lib.crc import catalog
        a = getattr(catalog, config["name"])
        p = {"crc_width": a.crc_width, "polynomial": a.polynomial, "initial_crc": a.initial_crc,
             "reflect_input": a.reflect_input, "reflect_output": a.reflect_output, "xor_output": a.xor_output}
        # (a relative of the catalogue entry: same polynomial and reflections, other initial value / output mask)
        p.update(config.get("mutate") or {})
        return p
    return config["params"]


def gen_case_i(seed, tier, index):
    cfg = stream(seed, "cfg")
    wl = stream(seed, "workload")
    fl = stream(seed, "faults")
    sc = stream(seed, "sched")
    config = {}
    if index % 5 == 4:
        n = cfg.choice([1, 2, 3, 4, 5, 7, 8, 12, 16, 24, 32, 40, 64, cfg.randint(1, 64)])
        p = {"crc_width": n, "polynomial": cfg.randrange(1 << n) | (1 if cfg.random() < 0.85 else 0),
             "initial_crc": cfg.choice([0, (1 << n) - 1, cfg.randrange(1 << n)]),
             "reflect_input": cfg.random() < 0.5, "reflect_output": cfg.random() < 0.5,
             "xor_output": cfg.choice([0, (1 << n) - 1, cfg.randrange(1 << n)])}
        config["name"] = None
        config["params"] = p
    else:
        config["name"] = NAMES[(index - index // 5) % len(NAMES)]
        p = None
    config["edge"] = cfg.choice(["pos", "pos", "neg"])
    if config["name"] and fl.random() < 0.3:
        n0 = params_of(config)["crc_width"]
        config["mutate"] = {"initial_crc": fl.randrange(1 << n0)}
        if fl.random() < 0.5:
            config["mutate"]["xor_output"] = fl.randrange(1 << n0)
    # p is needed for data widths and trailers; for catalogue entries resolve through amaranth's catalog module lazily
    if p is None:
        p = params_of(config)
    n = p["crc_width"]
    dw = cfg.choice([1, 2, 3, 4, 5, 7, 8, 16, n, 2 * n, 8, 1])
    if cfg.random() < 0.35:
        divs = [d for d in range(1, n + 1) if n % d == 0]
        dw = cfg.choice(divs)
    if config.get("mutate") and cfg.random() < 0.5:
        dw = 8          # (bytes / bytearray input to compute() exists for 8-bit words only)
    while dw * n > 1024 and dw > 1:      # keeps elaboration of the XOR network within a few hundred ms
        dw = dw // 2 if n % (dw // 2 or 1) == 0 or dw > n else max(1, dw - 1)
    config["data_width"] = dw
    active = 1 if config["edge"] == "pos" else 0
    nmsgs = cfg.randint(1, 4) if tier == "quick" else cfg.randint(1, 12)
    steps = []
    cur = {"start": 0, "valid": 0, "data": 0}
    dmask = (1 << dw) - 1

    def cycle(start, valid, data):
        v = {}
        for k, x in (("start", start), ("valid", valid), ("data", data)):
            if cur[k] != x:
                v[k] = x
                cur[k] = x
        if fl.random() < 0.15 and not valid:
            # data glitches while valid is low
            steps.append({"k": "set", "v": {"data": fl.randrange(1 << dw)}})
            cur["data"] = steps[-1]["v"]["data"]
            if "data" not in v and cur["data"] != data:
                v["data"] = data
                cur["data"] = data
        if v:
            steps.append({"k": "set", "v": v})
        steps.append({"k": "clk", "l": active})
        steps.append({"k": "clk", "l": 1 - active})
        if fl.random() < 0.05:
            steps.append({"k": "clk", "l": 1 - active})

    p_idle = fl.choice([0.0, 0.1, 0.4])
    p_hwrst = fl.choice([0, 0, 0.3, 0.6])
    for _ in range(nmsgs):
        length = wl.choice([0, 1, 2, 3, wl.randint(1, 16), wl.randint(1, 64 if tier == "thorough" else 24)])
        words = [wl.randrange(1 << dw) for _ in range(length)]
        if wl.random() < 0.1 and dw == 8:
            words = list(b"123456789")
        tr = []
        if n % dw == 0 and wl.random() < 0.7:
            own = trailer_words(p, williams(p, words, dw), dw)
            r = wl.random()
            if r < 0.5:
                tr = own
            elif r < 0.8:
                tr = list(own)
                bit = wl.randrange(n)
                tr[bit // dw] ^= 1 << (bit % dw)
            else:
                tr = [wl.randrange(1 << dw) for _ in own]
        stream_words = words + tr
        mode = wl.choice(["lone", "with_first", "with_first", "none"])
        if mode == "lone" or (mode == "with_first" and not stream_words):
            cycle(1, 0, cur["data"])
        first = True
        for j, w in enumerate(stream_words):
            while fl.random() < p_idle:
                cycle(0, 0, fl.randrange(1 << dw) if fl.random() < 0.5 else cur["data"])
            st = 1 if (first and mode == "with_first") else 0
            if (not first) and fl.random() < 0.03:
                st = 1      # restart in the middle of a message
            cycle(st, 1, w & dmask)
            first = False
        cycle(0, 0, cur["data"])
        if p_hwrst and fl.random() < p_hwrst:
            # the domain's reset, held over one or two active edges (also in the middle of what follows, without `start`): the
            # register returns to the initial value
            steps.append({"k": "rst", "l": 1})
            for _ in range(fl.randint(1, 2)):
                steps.append({"k": "clk", "l": active})
                steps.append({"k": "clk", "l": 1 - active})
            steps.append({"k": "rst", "l": 0})
    return {"config": config, "sched": {"mode": sc.choice(["seeded", "seeded", "reverse", "insertion"]),
                                        "seed": sc.randrange(1 << 32)}, "steps": steps, "reuse": fl.random() < 0.15,
            "sibling": fl.choice([0, 0, 1, 2])}


def gen_case(seed, tier):
    return gen_case_i(seed, tier, seed % 1000)


def run_case(case):
    from amaranth.lib import crc as crclib
    config = case["config"]
    p = params_of(config)
    n = p["crc_width"]
    dw = config["data_width"]
    active = 1 if config["edge"] == "pos" else 0
    algo = crclib.Algorithm(**p)
    params = algo(dw)
    res = Result()
    dig = Digest()
    stats = {"steps": 0, "edges": 0,
             "faults": {"idle-gap": 0, "restart": 0, "lone-start": 0, "start+valid": 0, "glitch-in": 0, "inactive": 0},
             "probes": {"words": 0, "own_trailer_match": 0, "other_trailer_nomatch": 0, "catalogue_check_value": 0,
                        "software_compares": 0, "random_params": 0, "trailer_checks": 0}}
    P = stats["probes"]
    F = stats["faults"]

    def checks():
        # software clause
        if config.get("name") and not config.get("mutate"):
            got = algo(8).compute(b"123456789")
            exp = CHECKS[config["name"]][0]
            if got != exp:
                raise Violation("catalogue_check_value", -1, {"name": config["name"], "got": got, "published": exp})
            ref = williams(p, list(b"123456789"), 8)
            if ref != exp:
                raise Violation("catalogue_parameters_vs_published", -1, {"name": config["name"], "williams": ref,
                                                                          "published": exp})
            P["catalogue_check_value"] += 1
        else:
            P["random_params"] += 1

    if case.get("sibling"):
        # a transmitter and a receiver built from the same Parameters object: the second one is the one under test
        # (alternating between Processor(params) and params.create())
        sib = crclib.Processor(params) if case["sibling"] == 1 else params.create()
        P["second_processor_of_same_parameters"] = 1
        dut = params.create() if case["sibling"] == 1 else crclib.Processor(params)
    else:
        dut = crclib.Processor(params)
    run = ManualRun(dut, [DomainSpec("sync", edge=config["edge"])],
                    sched_mode=case["sched"]["mode"], sched_seed=case["sched"]["seed"])
    k = n // dw if n % dw == 0 else None
    odd = p["polynomial"] & 1

    def body(drv):
        checks()
        inp = {"start": 0, "valid": 0, "data": 0}
        sigs = {"start": dut.start, "valid": dut.valid, "data": dut.data}
        words = []
        reg = williams_reg(p, [], dw)
        regs = [reg]           # register after each prefix of `words`
        clk = 0
        sets_since = 0
        idle = 0
        rst_lv = [0]

        def compare(step):
            crc = drv.get(dut.crc)
            exp = williams_out(p, regs[-1])
            if crc != exp:
                raise Violation("hw_crc", step, {"crc": crc, "expected": exp, "words_since_start": len(words),
                                                 "last_words": words[-4:]})
            md = drv.get(dut.match_detected)
            if k is not None and len(words) >= k:
                own = trailer_words(p, williams_out(p, regs[-1 - k]), dw)
                is_own = (words[-k:] == own)
                P["trailer_checks"] += 1
                if is_own and not md:
                    raise Violation("match_not_detected", step, {"words": len(words), "trailer": own})
                if not is_own and md and odd:
                    raise Violation("match_detected_for_other_trailer", step,
                                    {"words": len(words), "trailer": words[-k:], "own": own})
                return crc, md, is_own
            return crc, md, None

        obs = compare(-1)
        for i, st in enumerate(case["steps"]):
            drv.begin_step(i)
            stats["steps"] += 1
            is_active = False
            if st["k"] == "set":
                for name, val in st["v"].items():
                    if name == "data":
                        val &= (1 << dw) - 1
                    if inp[name] != val:
                        inp[name] = val
                        drv.set(sigs[name], val)
                sets_since += 1
                if sets_since == 2:
                    F["glitch-in"] += 1
            elif st["k"] == "rst":
                rst_lv[0] = st["l"]
                drv.drive({"sync.rst": st["l"]})
                F["reset"] = F.get("reset", 0) + 1
            else:
                lvl = st["l"]
                is_active = (lvl != clk and lvl == active)
                if lvl != clk:
                    stats["edges"] += 1
                    if not is_active:
                        F["inactive"] += 1
                clk = lvl
                drv.drive({"sync.clk": lvl})
                if is_active and rst_lv[0]:
                    sets_since = 0
                    words = []
                    regs = [williams_reg(p, [], dw)]
                    P["reset_at_edge"] = P.get("reset_at_edge", 0) + 1
                elif is_active:
                    sets_since = 0
                    if inp["start"]:
                        if inp["valid"]:
                            F["start+valid"] += 1
                        else:
                            F["lone-start"] += 1
                        if words:
                            F["restart"] += 1
                        words = []
                        regs = [williams_reg(p, [], dw)]
                    if inp["valid"]:
                        if idle and words:
                            F["idle-gap"] += 1
                        idle = 0
                        words.append(inp["data"])
                        regs.append(williams_reg(p, [inp["data"]], dw, regs[-1]))
                        P["words"] += 1
                    else:
                        idle += 1
            new = compare(i)
            if is_active and inp["valid"] and not rst_lv[0]:
                if new[2] is True:
                    P["own_trailer_match"] += 1
                elif new[2] is False:
                    P["other_trailer_nomatch"] += 1
                # software clause on the same words
                if len(words) <= 80:
                    # the same words as a list, and (every third time) as a one-shot iterator
                    if P["software_compares"] % 3 == 2:
                        sw = params.compute(iter(list(words)))
                        P["compute_from_iterator"] = P.get("compute_from_iterator", 0) + 1
                    elif dw == 8 and P["software_compares"] % 3 == 1:
                        sw = params.compute(bytes(words) if P["software_compares"] % 2 else bytearray(words))
                        P["compute_from_bytes"] = P.get("compute_from_bytes", 0) + 1
                    else:
                        sw = params.compute(words)
                    P["software_compares"] += 1
                    exp = williams_out(p, regs[-1])
                    if sw != exp:
                        raise Violation("sw_compute", i, {"compute": sw, "expected": exp, "words": list(words)})
            if not is_active and st["k"] == "clk" and new[:2] != obs[:2]:
                raise Violation("changed_without_active_edge", i, {"before": list(obs[:2]), "after": list(new[:2])})
            obs = new
            dig.add((st["k"], obs[0], obs[1]))

    run_guarded(res, lambda: run.run(body))
    if res.violation is None and case.get("reuse") and True:
        # second use of the very same design object: elaborated and simulated again, it must behave identically
        first = dig.restart()
        run2 = ManualRun(dut, [DomainSpec("sync", edge=config["edge"])], sched_mode=case["sched"]["mode"], sched_seed=case["sched"]["seed"])
        run_guarded(res, lambda: run2.run(body))
        stats["faults"]["reuse"] = stats["faults"].get("reuse", 0) + 1
        if res.violation is None and dig.hexdigest() != first:
            res.violation = {"oracle": "second_use_of_same_object_differs", "step": -1, "detail": {}}
    stats["decisions"] = run.decisions
    dig.add_events(run.events)
    nontrivial = P["words"] >= 2 and any(F.values())
    return finish(res, dig, stats, nontrivial)


def signature(case, violation):
    c = case["config"]
    sig = {"oracle": violation["oracle"], "name": c.get("name"), "data_width": c["data_width"]}
    if violation["oracle"] == "exception":
        sig["exc"] = violation["detail"].get("type")
    return sig


def simplify(case):
    c = case["config"]
    if c["edge"] != "pos":
        yield dict(case, config=dict(c, edge="pos"),
                   steps=[(dict(s, l=1 - s["l"]) if s["k"] == "clk" else s) for s in case["steps"]])
    for dw in (1, 8):
        if dw < c["data_width"]:
            yield dict(case, config=dict(c, data_width=dw))


def self_test():
    # the Williams model against three textbook values (independent of the repo's table)
    crc32 = {"crc_width": 32, "polynomial": 0x04C11DB7, "initial_crc": 0xFFFFFFFF, "reflect_input": True,
             "reflect_output": True, "xor_output": 0xFFFFFFFF}
    assert williams(crc32, list(b"123456789"), 8) == 0xCBF43926
    ccitt = {"crc_width": 16, "polynomial": 0x1021, "initial_crc": 0xFFFF, "reflect_input": False,
             "reflect_output": False, "xor_output": 0}
    assert williams(ccitt, list(b"123456789"), 8) == 0x29B1
    crc8 = {"crc_width": 8, "polynomial": 0x07, "initial_crc": 0, "reflect_input": False, "reflect_output": False,
            "xor_output": 0}
    assert williams(crc8, list(b"123456789"), 8) == 0xF4
    # word packing: 16-bit words for a non-reflected CRC = big-endian byte pairs
    assert williams(ccitt, [0x3132, 0x3334, 0x3536, 0x3738], 16) == williams(ccitt, list(b"12345678"), 8)
    # reflected: little-endian pairs
    assert williams(crc32, [0x3231, 0x3433], 16) == williams(crc32, list(b"1234"), 8)
    # own trailer gives the same register for any message (the residue)
    for p in (crc32, ccitt, crc8):
        regs = set()
        for msg in ([1, 2, 3], [9], []):
            t = trailer_words(p, williams(p, msg, 8), 8)
            regs.add(williams_reg(p, msg + t, 8))
        assert len(regs) == 1, regs
