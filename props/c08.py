"""C08  Simulation results do not depend on process scheduling order (and time is exact)."""
import json

from dsim.rng import stream, Digest
from dsim.simdrv import Violation
from dsim.runner import Result, finish, run_guarded
from dsim.permset import scheduler

ID = "C08"
TITLE = "Simulation results do not depend on process scheduling order"
RULE = ("case = (chain circuit: 3 combinational stages spread over 1..4 fragments, two registers in 1..2 clock domains of either "
        "edge, any subset of the six parts replaced by user processes written exactly as in docs/simulator.rst; clocks added with "
        "seeded even integer-femtosecond periods (2 fs .. 1 us) and phases, equal phases/periods to force ties; 1..4 testbenches "
        "(optionally identical twins) with scripts over set / get / tick / tick.sample / tick.repeat / delay (incl. 0 and "
        "deadlines equal to clock edges) / edge / changed on registers / trigger combinations racing an edge or a change of a "
        "register against a delay that often expires exactly at a clock edge). Every case is executed under K process orders "
        "(insertion, reverse, seeded x2, shipped hash order) over all four engine sets and compared with an integer-arithmetic "
        "discrete-event reference. Non-trivial = >= 1 tick wake-up, >= 1 set, >= 2 orders executed with permutation decisions; "
        "distinct = distinct SHA-256 of the reference log.")
ASSUMPTIONS = [
    "Reference: props/c08.py::Reference, an integer-femtosecond discrete-event model of the chain circuit and of the testbench "
    "scripts (wake at the first trigger strictly after the current instant; a delay that ends at a clock-edge instant resumes after "
    "that edge's effects; testbenches that wake at one instant run in the order added; tick samples are pre-edge values).",
    "Odd periods (in femtoseconds) are generated too: the clock rises at its phase and then exactly every period, and falls "
    "floor(period / 2) after each rise. A clock with phase 0 has its first edge at time 0 after the "
    "testbenches have started (Simulator.advance: all events of a time point take effect before the testbenches run again).",
    "changed()/edge() are awaited on registers only (glitch wake-ups on combinational signals are documented as order-dependent).",
    "No resets are applied.",
    "Generated programs under real clocks (a quarter of the cases): besides the hopping testbench an observer testbench, added "
    "first, loops over one-shot `tick(domain).sample(every signal)` waits; it must be resumed exactly at every active edge of the "
    "domain (clk_hit, reset level, values from just before the edge) and, for an asynchronous-reset domain, when the reset rises "
    "(no clk_hit, reset active, values from just before the reset took effect).",
    "A third testbench, added after the hopping one, loops over tick(domain).repeat(n): it must report 'n ticks seen' or "
    "DomainReset exactly as n one-shot tick waits would (a reset asserted by the earlier testbench in the instant of a clock edge "
    "is seen at the next tick as an active reset).",
    "Trigger combinations (edge|delay, changed|delay): the wake-up instant is the earlier of the two; the result reports which "
    "fired; when both fall into the same instant the first element of the result (edge flag / sampled value) is not compared "
    "with the reference, only between process orders.",
]
COMPONENTS = {"real": ["amaranth.sim.Simulator / PySimEngine.step_design / advance", "_PyTimeline", "PyClockProcess",
                       "_PyTriggerState (tick, sample, delay, edge, changed, repeat)", "AsyncProcess (testbenches and processes)",
                       "compiled RTL processes (_pyrtl)"],
              "stub": ["PermSet scheduler seam over _processes, _active_triggers, pending, nearest_wakers",
                       "integer-arithmetic reference of circuit + testbench scripts"]}
EXPECTED_PROBES = ("sched", "tie", "zero_delay", "replaced_comb", "replaced_sync", "twins_same_instant", "coincident_domains",
                   "set_then_get", "tick_sample", "edge_wait", "changed_wait", "woken_by_testbench", "race_wait", "race_tie",
                   "race_won_by_signal", "race_won_by_delay", "tick_observed", "tick_observed_under_reset",
                   "tick_completed_by_async_reset", "repeat_ticks", "repeat_interrupted_by_async_reset")
HANG_IS_VIOLATION = True
CHUNK = 4
PARTS = ["s1", "s2", "s3", "r1", "r2", "out"]


def gen_prog_tl(seed, tier):
    """An arbitrary generated program under real clock processes: add_clock() with seeded periods/phases per domain, one
    testbench that hops from one clock-toggle instant to the next with ctx.delay() and sets inputs / resets in between."""
    from dsim import progen
    cfg = stream(seed, "cfg")
    wl = stream(seed, "workload")
    fl = stream(seed, "faults")
    prog = progen.gen_program(cfg, {"max_domains": 3, "max_modules": 3, "wrappers": cfg.random() < 0.4, "max_stmts": 6, "depth": 1,
                                    "clock_reads": True})
    per = [2, 4, 6, 10, 20, 50, 100]
    clocks = {}
    base_ph = cfg.choice([1, 2, 3, 5])
    for d in prog["domains"]:
        p = cfg.choice(per)
        clocks[d["name"]] = {"period": p, "phase": cfg.choice([None, base_ph, base_ph, 0, 1, p // 2, p, p + 1])}
    sigs = prog["signals"]
    inputs = [i for i, s in enumerate(sigs) if s["role"] in ("input", "ctl") and s["width"] > 0]
    rst_doms = [d["name"] for d in prog["domains"] if not d["reset_less"]]
    rl = {d: 0 for d in rst_doms}
    steps = []
    n = cfg.randint(10, 60) if tier == "quick" else cfg.randint(10, 200)
    for _ in range(n):
        r = wl.random()
        if r < 0.3 and inputs:
            i = wl.choice(inputs)
            w = sigs[i]["width"]
            steps.append({"k": "set", "s": i, "v": wl.choice([0, (1 << w) - 1, wl.randrange(1 << w)])})
        elif r < 0.38 and rst_doms:
            dn = fl.choice(rst_doms)
            rl[dn] ^= 1
            steps.append({"k": "rst", "d": dn, "l": rl[dn]})
        else:
            steps.append({"k": "adv"})
    orders = [["insertion", 0], ["reverse", 0], ["seeded", fl.randrange(1 << 32)], ["hash", 0]]
    if tier == "quick":
        orders = [orders[2], orders[fl.choice([0, 1, 3])]]
    rst_proc = None
    adoms = [d for d in prog["domains"] if d["async_reset"] and not d["reset_less"]]
    if adoms and fl.random() < 0.4:
        # a user process asserts an asynchronous reset exactly at a clock-toggle instant (same delta cycle as the clock
        # process): resettable registers end at their initial value, reset-less ones take their edge, in either order
        d = fl.choice(adoms)
        c = clocks[d["name"]]
        half = c["period"] // 2
        ph = c["phase"] if c["phase"] is not None else half
        rst_proc = {"dom": d["name"], "at": ph + fl.randint(1, 8) * half}
    observer = fl.choice([None] + [d["name"] for d in prog["domains"]] * 2)
    # ... and one added *after* the hopping testbench, which loops over `tick(domain).repeat(n)` (documented as n one-shot waits
    # that raise DomainReset if the domain is reset during the wait)
    repeater = {"dom": fl.choice([d["name"] for d in prog["domains"]]), "n": fl.randint(1, 4)} if fl.random() < 0.5 else None
    return {"kind": "prog_tl", "observer": observer, "repeater": repeater, "rst_proc": rst_proc, "refused_clock": fl.choice([0, 0, 6, 10]), "prog": prog, "clocks": clocks, "steps": steps, "orders": orders,
            "add_order": fl.choice([0, fl.randrange(1, 1 << 30)])}


def gen_case_i(seed, tier, index):
    if index % 4 == 3:
        return gen_prog_tl(seed, tier)
    return gen_case(seed, tier)


def gen_case(seed, tier):
    cfg = stream(seed, "cfg")
    wl = stream(seed, "workload")
    fl = stream(seed, "faults")
    w = cfg.choice([2, 3, 4, 6])
    two = cfg.random() < 0.6
    per = [2, 4, 6, 10, 20, 50, 100, 1000, 10 ** 6, 10 ** 9, 3, 5, 7, 11, 25, 101, 20833333]    # (48 MHz = 20 833 333 fs)
    p1 = cfg.choice(per)
    p2 = cfg.choice(per) if cfg.random() < 0.7 else p1
    # keep the slow/fast ratio bounded: a 1:1e9 ratio costs 1e9 timeline steps
    while max(p1, p2) // min(p1, p2) > 500:
        if p1 > p2:
            p1 //= 10
        else:
            p2 //= 10
        p1 += p1 % 2
        p2 += p2 % 2
    ph = lambda p: cfg.choice([None, 0, 1, p // 2, p, p + 1, 3, p // 2 + 1])
    ph1 = ph(p1)
    ph2 = cfg.choice([ph1, ph(p2), ph(p2)])
    config = {"w": w, "k1": cfg.randrange(1 << w), "k2": cfg.randrange(1 << w),
              "split": cfg.choice([0, 1, 2, 3]),      # how many stages live in their own submodule
              "d1": {"edge": cfg.choice(["pos", "neg"]), "period": p1, "phase": ph1},
              "d2": ({"edge": cfg.choice(["pos", "neg"]), "period": p2, "phase": ph2} if two else None),
              "replace": [p for p in PARTS if fl.random() < 0.3], "sample_variant": fl.random() < 0.5}
    # the memory's second write port may live in the other domain and address the same rows as the first: when both clocks have
    # an active edge in one instant and both ports write one row, the row ends up with one of the two values - the same one
    # under every process order
    config["mem_cross"] = bool(two and fl.random() < 0.35)
    config["rowproc"] = fl.random() < 0.3
    doms = ["d1", "d2"] if two else ["d1"]
    ntb = cfg.randint(1, 4)
    twins = ntb >= 2 and cfg.random() < 0.4
    nops = (3, 14) if tier == "quick" else (3, 40)

    def script():
        ops = []
        for _ in range(wl.randint(*nops)):
            k = wl.choice(["tick", "tick", "sample", "repeat", "delay", "delay_edge", "delay0", "set", "set", "get", "get",
                           "edge", "changed", "changed_in", "race", "race"])
            if k == "tick":
                ops.append({"k": "tick", "dom": wl.choice(doms)})
            elif k == "sample":
                ops.append({"k": "sample", "dom": wl.choice(doms)})
            elif k == "repeat":
                ops.append({"k": "repeat", "dom": wl.choice(doms), "n": wl.randint(1, 4)})
            elif k == "delay":
                ops.append({"k": "delay", "fs": wl.choice([1, 2, 3, p1, p1 // 2, p2 + 1, wl.randint(1, 2 * max(p1, p2))])})
            elif k == "delay_edge":
                ops.append({"k": "delay_to_edge", "dom": wl.choice(doms), "n": wl.randint(1, 3)})
            elif k == "delay0":
                ops.append({"k": "delay", "fs": 0})
            elif k == "set":
                sig = wl.choice(["x", "x", "en", "wen2"])
                ops.append({"k": "set", "sig": sig, "v": wl.randrange(1 << w) if sig == "x" else wl.randint(0, 1)})
            elif k == "get":
                ops.append({"k": "get"})
            elif k == "changed_in":
                ops.append({"k": "changed_in", "sig": wl.choice(["x", "x", "en", "wen2"])})     # woken by another testbench's set()
            elif k == "edge":
                ops.append({"k": "edge", "sig": wl.choice(["r1", "r2"]), "bit": wl.randrange(w), "pol": wl.randint(0, 1)})
            elif k == "race":
                # a trigger combination: (edge of a register bit | change of a register) raced against a delay that often expires
                # exactly at a clock edge; the result says which of the two fired
                fs = wl.choice([1, 2, p1 // 2, p1, p2, 2 * p1 + 1, wl.randint(1, 2 * max(p1, p2))])
                if wl.random() < 0.4:
                    fs = {"dom": wl.choice(doms), "n": wl.randint(1, 3)}     # up to the n-th next active edge of a domain
                if wl.random() < 0.5:
                    ops.append({"k": "race", "sig": wl.choice(["r1", "r2"]), "bit": wl.randrange(w), "pol": wl.randint(0, 1), "fs": fs})
                else:
                    ops.append({"k": "race_changed", "sig": wl.choice(["r1", "r2"]), "fs": fs})
            else:
                ops.append({"k": "changed", "sig": wl.choice(["r1", "r2"])})
        return ops

    if twins:
        base = script()
        tbs = [[dict(op) for op in base] for _ in range(ntb)]
    else:
        tbs = [script() for _ in range(ntb)]
    orders = [["insertion", 0], ["reverse", 0], ["seeded", fl.randrange(1 << 32)], ["seeded", fl.randrange(1 << 32)], ["hash", 0]]
    if tier == "quick":
        orders = [orders[0], orders[1], orders[2], orders[4]] if fl.random() < 0.5 else [orders[2], orders[3], orders[1]]
    # drop waits that can never complete (e.g. changed() on a register that has stopped changing)
    for _ in range(40):
        ref = Reference(config, tbs, horizon_events=20000)
        try:
            ref.run()
            break
        except Unreachable:
            for (i, j) in ref.stuck:
                if tbs[i][j]["k"] in ("edge", "changed", "changed_in"):
                    tbs[i] = tbs[i][:j] + tbs[i][j + 1:]
                else:
                    tbs[i] = tbs[i][:j]
    return {"config": config, "tbs": tbs, "orders": orders, "steps": [], "add_order": fl.choice([0, 0, fl.randrange(1, 1 << 30)]),
            "rerun": fl.random() < 0.3}


# ====================================================================================================================
# reference model
class Unreachable(Exception):
    """A wait that can never complete (generator artefact): the case is not judged."""


class Reference:
    def __init__(self, config, tbs, horizon_events=200000):
        self.c = config
        self.w = config["w"]
        self.mask = (1 << self.w) - 1
        self.x = 0
        self.en = 1
        self.r1 = 0
        self.r2 = 0
        self.r3 = 0
        self.wen2 = 0
        self.rows = [1, 2, 3, 0]        # memory rows (initial contents as built)
        self.now = 0
        self.tbs = tbs
        self.log = []
        self.horizon = horizon_events
        self.doms = {"d1": config["d1"]}
        if config["d2"]:
            self.doms["d2"] = config["d2"]
        self.stats = {"tie": 0, "zero_delay": 0, "twins_same_instant": 0, "coincident_domains": 0, "set_then_get": 0,
                      "tick_sample": 0, "edge_wait": 0, "changed_wait": 0, "tick_wakeups": 0, "sets": 0}

    # --- circuit
    def comb(self):
        y1 = (self.x + self.c["k1"]) & self.mask
        y2 = y1 ^ self.c["k2"]
        y3 = (y2 * 3) & self.mask
        out = self.r1 ^ self.r2 ^ y2
        return y1, y2, y3, out

    def snapshot(self):
        y1, y2, y3, out = self.comb()
        m_ = lambda r: r if r == "*" else r & self.mask
        return [self.x, self.en, y1, y2, y3, self.r1, self.r2, out, self.r3, m_(self.rows[self.x & 3])] + [m_(r) for r in self.rows]

    # --- time
    def phase(self, d):
        # default: half a period, as add_clock() computes it (Period(fs=p / 2), rounded to an integer)
        return d["phase"] if d["phase"] is not None else round(d["period"] / 2)

    def active_edges_after(self, dom, t):
        """first active edge time strictly greater than t"""
        d = self.doms[dom]
        p = d["period"]
        first = self.phase(d) + (0 if d["edge"] == "pos" else p // 2)
        if t < first:
            return first
        k = (t - first) // p + 1
        return first + k * p

    def race_fs(self, op):
        fs = op["fs"]
        if isinstance(fs, dict):
            t = self.now
            for _ in range(fs["n"]):
                t = self.active_edges_after(fs["dom"], t)
            return t - self.now
        return fs

    def is_active_edge(self, dom, t):
        d = self.doms[dom]
        p = d["period"]
        first = self.phase(d) + (0 if d["edge"] == "pos" else p // 2)
        return t >= first and (t - first) % p == 0

    def run(self):
        n = len(self.tbs)
        pc = [0] * n
        wait = [None] * n       # None = runnable now; else dict describing the wait
        done = [False] * n
        pending_log = [None] * n

        def run_tb(i):
            """execute ops of testbench i until it blocks or finishes"""
            ops = self.tbs[i]
            while pc[i] < len(ops):
                op = ops[pc[i]]
                k = op["k"]
                if k == "set":
                    before = (self.x, self.en, self.wen2)
                    if op["sig"] == "x":
                        self.x = op["v"] & self.mask
                    elif op["sig"] == "wen2":
                        self.wen2 = op["v"] & 1
                    else:
                        self.en = op["v"] & 1
                    newv = {"x": self.x, "en": self.en, "wen2": self.wen2}[op["sig"]]
                    if (self.x, self.en, self.wen2) != before:
                        # testbenches waiting for this input to change become runnable at once (value captured now)
                        for j in range(n):
                            if not done[j] and wait[j] is not None and wait[j]["k"] == "changed_in" and wait[j]["sig"] == op["sig"]:
                                wait[j] = None
                                runnable[j] = [newv]
                                self.stats["woken_by_testbench"] = self.stats.get("woken_by_testbench", 0) + 1
                    self.stats["sets"] += 1
                    self.log.append([i, pc[i], self.now, "set", None, self.snapshot()])
                    if pc[i] + 1 < len(ops) and ops[pc[i] + 1]["k"] == "get":
                        self.stats["set_then_get"] += 1
                    pc[i] += 1
                elif k == "get":
                    self.log.append([i, pc[i], self.now, "get", None, self.snapshot()])
                    pc[i] += 1
                else:
                    # a wait
                    if k in ("tick", "sample"):
                        wait[i] = {"k": k, "dom": op["dom"], "left": 1}
                    elif k == "repeat":
                        wait[i] = {"k": k, "dom": op["dom"], "left": op["n"]}
                    elif k == "delay":
                        wait[i] = {"k": k, "at": self.now + op["fs"], "armed_round": self.round}
                        if op["fs"] == 0:
                            self.stats["zero_delay"] += 1
                    elif k == "delay_to_edge":
                        t = self.now
                        for _ in range(op["n"]):
                            t = self.active_edges_after(op["dom"], t)
                        wait[i] = {"k": "delay", "at": t, "armed_round": self.round}
                        self.stats["tie"] += 1
                    elif k == "edge":
                        wait[i] = {"k": k, "sig": op["sig"], "bit": op["bit"], "pol": op["pol"]}
                        self.stats["edge_wait"] += 1
                    elif k == "changed":
                        wait[i] = {"k": k, "sig": op["sig"]}
                        self.stats["changed_wait"] += 1
                    elif k == "changed_in":
                        wait[i] = {"k": k, "sig": op["sig"]}
                    elif k in ("race", "race_changed"):
                        wait[i] = dict(op, at=self.now + self.race_fs(op), armed_round=self.round)
                        self.stats["race_wait"] = self.stats.get("race_wait", 0) + 1
                    return
            done[i] = True

        runnable = {}

        def run_passes():
            """`add_testbench`: "At each point in time, all of the non-waiting testbenches are executed in the order in which they
            were added": whenever a testbench yields, the first non-waiting one in that order runs next - also when an earlier
            testbench has just been woken by a later one's write"""
            while runnable:
                i = min(runnable)
                val = runnable.pop(i)
                if val == "start":
                    self.log.append([i, -1, self.now, "start", None, self.snapshot()])
                else:
                    self.log.append([i, pc[i], self.now, "wake", val, self.snapshot()])
                    pc[i] += 1
                run_tb(i)

        self.round = 0
        self.edge_base = -1
        # time 0: all testbenches run in order
        for i in range(n):
            runnable[i] = "start"
        run_passes()
        events = 0
        while not all(done):
            events += 1
            if events > self.horizon:
                self.stuck = [(i, pc[i]) for i in range(n) if not done[i]]
                raise Unreachable("horizon")
            # next instant: earliest of (delay deadlines, next clock edges (any edge of a used clock matters only if active))
            cands = []
            for i in range(n):
                if done[i] or wait[i] is None:
                    continue
                wv = wait[i]
                if wv["k"] in ("delay", "race", "race_changed"):
                    cands.append(wv["at"])
            # edge instants up to `edge_base` have been processed (-1 at the start: a clock with phase 0 has its first edge at
            # time 0, *after* the testbenches started)
            t_edge = min(self.active_edges_after(d, self.edge_base) for d in self.doms)
            t_delay = min(cands) if cands else None
            if t_delay is not None and t_delay == self.now and not (t_edge == self.now):
                # zero delay: resumes in the next round at the same instant, no edges in between
                T = self.now
                edges_now = []
            else:
                # registers evolve with every active edge: step through them one instant at a time
                T = t_edge if t_delay is None else min(t_edge, t_delay)
                edges_now = [d for d in self.doms if self.is_active_edge(d, T)] if T > self.edge_base else []
            self.round += 1
            self.now = T
            self.edge_base = T
            pre = (self.r1, self.r2, self.comb(), self.en)
            r1_new, r2_new = self.r1, self.r2
            dom_of = {"r1": "d1", "r2": "d2" if self.c["d2"] else "d1"}
            if dom_of["r1"] in edges_now and pre[3]:
                r1_new = pre[2][2]
            if dom_of["r2"] in edges_now:
                r2_new = (pre[0] + pre[1]) & self.mask
            r3_new = self.r3
            rows_new = list(self.rows)
            if "d1" in edges_now:
                r3_new = (r3_new & 2) | ((self.r3 ^ self.x) & 1)
                # two write ports on the same edge, always different rows: {0, r1[0]} and {1, r2[0]}
                if pre[3]:
                    rows_new[pre[0] & 1] = pre[2][2]
                if self.wen2 and not self.c.get("mem_cross"):
                    rows_new[2 | (pre[1] & 1)] = pre[2][0]
            if self.c.get("mem_cross") and "d2" in edges_now and self.wen2:
                # the second port, on the other clock, writes rows {0, r2[0]}: the same row as the first port when r1[0] == r2[0]
                row = pre[1] & 1
                if "d1" in edges_now and pre[3] and (pre[0] & 1) == row and pre[2][2] != pre[2][0]:
                    rows_new[row] = "*"        # either value, whichever it is under one order it is under all
                    self.stats["cross_domain_write_collision"] = self.stats.get("cross_domain_write_collision", 0) + 1
                else:
                    rows_new[row] = pre[2][0]
            if self.c.get("rowproc") and "d1" in edges_now and (self.x >> 1) & 1:
                # the process's store and a port's write to one row at one edge: one of the two values - the same under every
                # process order (elsewhere the store simply takes effect)
                row = pre[0] & 1
                val = (self.x + 1) & self.mask
                if rows_new[row] != self.rows[row] or (pre[3]) or (self.c.get("mem_cross") and "d2" in edges_now and self.wen2
                                                                 and (pre[1] & 1) == row):
                    rows_new[row] = val if rows_new[row] == val else "*"
                    self.stats["process_and_port_write_one_row"] = self.stats.get("process_and_port_write_one_row", 0) + 1
                else:
                    rows_new[row] = val
            if dom_of["r2"] in edges_now:
                r3_new = (r3_new & 1) | (((self.r3 >> 1) ^ pre[3]) & 1) << 1
            self.r3 = r3_new
            self.rows = rows_new
            if len(edges_now) == 2:
                self.stats["coincident_domains"] += 1
            pre_vals = {"r1": self.r1, "r2": self.r2, "out": pre[2][3]}
            changed = {"r1": r1_new != self.r1, "r2": r2_new != self.r2}
            old = {"r1": self.r1, "r2": self.r2}
            self.r1, self.r2 = r1_new, r2_new
            new = {"r1": self.r1, "r2": self.r2}
            woken = []
            for i in range(n):
                if done[i] or wait[i] is None:
                    continue
                wv = wait[i]
                k = wv["k"]
                if k in ("tick", "sample", "repeat"):
                    if wv["dom"] in edges_now:
                        wv["left"] -= 1
                        if wv["left"] == 0:
                            if k == "sample":
                                self.stats["tick_sample"] += 1
                                val = [True, False, pre_vals["r1"], pre_vals["r2"], pre_vals["out"]]
                            elif k == "tick":
                                val = [True, False]
                            else:
                                val = []
                            self.stats["tick_wakeups"] += 1
                            woken.append((i, val))
                elif k == "delay":
                    if wv["at"] == T and wv["armed_round"] < self.round:
                        if edges_now:
                            self.stats["tie"] += 1
                        woken.append((i, [True]))
                elif k == "edge":
                    ob, nb = (old[wv["sig"]] >> wv["bit"]) & 1, (new[wv["sig"]] >> wv["bit"]) & 1
                    if ob != nb and nb == wv["pol"]:
                        woken.append((i, [True]))
                elif k == "changed":
                    if changed[wv["sig"]]:
                        woken.append((i, [new[wv["sig"]]]))
                elif k in ("race", "race_changed"):
                    hit_d = wv["at"] == T and wv["armed_round"] < self.round
                    if k == "race":
                        ob, nb = (old[wv["sig"]] >> wv["bit"]) & 1, (new[wv["sig"]] >> wv["bit"]) & 1
                        hit_e = ob != nb and nb == wv["pol"]
                        first = hit_e
                    else:
                        hit_e = changed[wv["sig"]]
                        first = new[wv["sig"]]
                    if hit_e or hit_d:
                        # if both fall into the same instant the wake-up time is defined, but what the first element reports
                        # (the edge flag / the sampled value) is not: "*" = not compared with the reference (it must still be
                        # the same under every process order)
                        if hit_e and hit_d:
                            first = "*"
                            self.stats["race_tie"] = self.stats.get("race_tie", 0) + 1
                        elif hit_e:
                            self.stats["race_won_by_signal"] = self.stats.get("race_won_by_signal", 0) + 1
                        else:
                            self.stats["race_won_by_delay"] = self.stats.get("race_won_by_delay", 0) + 1
                        woken.append((i, [first, hit_d]))
            if len(woken) >= 2:
                self.stats["twins_same_instant"] += 1
            for i, val in woken:
                wait[i] = None
                runnable[i] = val
            run_passes()
        return self.log


# ====================================================================================================================
# the real thing
def build(config):
    from amaranth.hdl import Module, Signal, Elaboratable, ClockDomain, Cat
    w = config["w"]
    rep = set(config["replace"])

    class S:
        pass
    s = S()
    s.x = Signal(w, name="x")
    s.en = Signal(name="en", init=1)
    s.y1 = Signal(w, name="y1")
    s.y2 = Signal(w, name="y2")
    s.y3 = Signal(w, name="y3")
    s.r1 = Signal(w, name="r1")
    s.r2 = Signal(w, name="r2")
    s.out = Signal(w, name="out")
    s.r3 = Signal(2, name="r3")
    s.wen2 = Signal(name="wen2")
    s.md = Signal(w, name="md")
    from amaranth.lib.memory import Memory
    s.mem = Memory(shape=w, depth=4, init=[1 & ((1 << w) - 1), 2 & ((1 << w) - 1), 3 & ((1 << w) - 1), 0])
    d2 = "d2" if config["d2"] else "d1"

    def stage(name, m):
        if name == "s1" and "s1" not in rep:
            m.d.comb += s.y1.eq(s.x + config["k1"])
        if name == "s2" and "s2" not in rep:
            m.d.comb += s.y2.eq(s.y1 ^ config["k2"])
        if name == "s3" and "s3" not in rep:
            m.d.comb += s.y3.eq(s.y2 * 3)
        return m

    class Top(Elaboratable):
        def elaborate(self, platform):
            m = Module()
            m.domains.d1 = ClockDomain(clk_edge=config["d1"]["edge"])
            if config["d2"]:
                m.domains.d2 = ClockDomain(clk_edge=config["d2"]["edge"])
            names = ["s1", "s2", "s3"]
            for i, nm in enumerate(names):
                if i < config["split"]:
                    m.submodules[nm] = stage(nm, Module())
                else:
                    stage(nm, m)       # same fragment as the registers
            if "r1" not in rep:
                with m.If(s.en):
                    m.d.d1 += s.r1.eq(s.y3)
            if "r2" not in rep:
                m.d[d2] += s.r2.eq(s.r1 + s.r2)
            if "out" not in rep:
                m.d.comb += s.out.eq(s.r1 ^ s.r2 ^ s.y2)
            # a register whose bits belong to two domains, and a memory with two write ports on one clock
            m.d.d1 += s.r3[0].eq(s.r3[0] ^ s.x[0])
            m.d[d2] += s.r3[1].eq(s.r3[1] ^ s.en)
            m.submodules.mem = s.mem
            cross = bool(config.get("mem_cross"))
            wp0 = s.mem.write_port(domain="d1")
            wp1 = s.mem.write_port(domain=d2 if cross else "d1")
            rp = s.mem.read_port(domain="comb")
            m.d.comb += [wp0.addr.eq(Cat(s.r1[0], 0)), wp0.data.eq(s.y3), wp0.en.eq(s.en),
                         wp1.addr.eq(Cat(s.r2[0], 0 if cross else 1)), wp1.data.eq(s.y1), wp1.en.eq(s.wen2),
                         rp.addr.eq(s.x[0:2]), s.md.eq(rp.data)]
            return m

    procs = []
    k1, k2 = config["k1"], config["k2"]
    # combinational replacement, docs/simulator.rst "Replacing circuits with code"
    if "s1" in rep:
        if config.get("sample_variant"):
            async def p_s1(ctx):
                async for xv, env in ctx.changed(s.x).sample(s.en):      # `en` is sampled but does not influence the result
                    ctx.set(s.y1, xv + k1)
        else:
            async def p_s1(ctx):
                async for (xv,) in ctx.changed(s.x):
                    ctx.set(s.y1, xv + k1)
        procs.append(p_s1)
    if "s2" in rep:
        async def p_s2(ctx):
            async for (v,) in ctx.changed(s.y1):
                ctx.set(s.y2, v ^ k2)
        procs.append(p_s2)
    if "s3" in rep:
        async def p_s3(ctx):
            async for (v,) in ctx.changed(s.y2):
                ctx.set(s.y3, v * 3)
        procs.append(p_s3)
    if "out" in rep:
        async def p_out(ctx):
            async for a, b, c in ctx.changed(s.r1, s.r2, s.y2):
                ctx.set(s.out, a ^ b ^ c)
        procs.append(p_out)
    # synchronous replacement
    if "r1" in rep:
        async def p_r1(ctx):
            async for clk_edge, rst_value, en_v, d in ctx.tick("d1").sample(s.en, s.y3):
                if rst_value:
                    ctx.set(s.r1, 0)
                elif clk_edge and en_v:
                    ctx.set(s.r1, d)
        procs.append(p_r1)
    if "r2" in rep:
        async def p_r2(ctx):
            async for clk_edge, rst_value, a, b in ctx.tick(d2).sample(s.r1, s.r2):
                if rst_value:
                    ctx.set(s.r2, 0)
                elif clk_edge:
                    ctx.set(s.r2, a + b)
        procs.append(p_r2)
    if config.get("rowproc"):
        # a process that stores to a memory row itself, at the edge at which the memory's own write port may write the same row
        async def p_row(ctx):
            async for clk_edge, rst_value, r1v, xv in ctx.tick("d1").sample(s.r1, s.x):
                if clk_edge and (xv >> 1) & 1:
                    ctx.set(s.mem.data[r1v & 1], (xv + 1) & ((1 << config["w"]) - 1))
        procs.append(p_row)
    return Top(), s, procs


def simulate(case, order):
    from amaranth.hdl import Period
    from amaranth.sim import Simulator
    config = case["config"]
    log = []
    with scheduler(order[0], order[1]) as S:
        top, s, procs = build(config)
        sim = Simulator(top)
        import random as _random
        shuf = _random.Random(case.get("add_order", 0))
        adders = []
        for dom in ("d1", "d2"):
            d = config[dom]
            if d is None:
                continue
            kw = {}
            if d["phase"] is not None:
                kw["phase"] = Period(fs=d["phase"])
            adders.append(lambda dom=dom, d=d, kw=kw: sim.add_clock(Period(fs=d["period"]), domain=dom, **kw))
        for p in procs:
            adders.append(lambda p=p: sim.add_process(p))
        # the order in which clocks and processes are added must not matter
        if case.get("add_order"):
            shuf.shuffle(adders)
        for a in adders:
            a()
        regs = {"r1": s.r1, "r2": s.r2}

        def snapshot(ctx):
            return [ctx.get(v) for v in (s.x, s.en, s.y1, s.y2, s.y3, s.r1, s.r2, s.out, s.r3, s.md)] + \
                   [ctx.get(s.mem.data[i]) for i in range(4)]

        def conv(v):
            return [x if isinstance(x, bool) else int(x) for x in v]

        def mk(i, ops):
            async def tb(ctx):
                log.append([i, -1, ctx.elapsed_time().femtoseconds, "start", None, snapshot(ctx)])
                ref = Reference(config, [])
                for oi, op in enumerate(ops):
                    k = op["k"]
                    if k == "set":
                        ctx.set({"x": s.x, "en": s.en, "wen2": s.wen2}[op["sig"]], op["v"])
                        log.append([i, oi, ctx.elapsed_time().femtoseconds, "set", None, snapshot(ctx)])
                        continue
                    if k == "get":
                        log.append([i, oi, ctx.elapsed_time().femtoseconds, "get", None, snapshot(ctx)])
                        continue
                    if k == "tick":
                        v = conv(await ctx.tick(op["dom"]))
                    elif k == "sample":
                        v = conv(await ctx.tick(op["dom"]).sample(s.r1, s.r2, s.out))
                    elif k == "repeat":
                        v = conv(await ctx.tick(op["dom"]).repeat(op["n"]))
                    elif k == "delay":
                        v = conv(await ctx.delay(Period(fs=op["fs"])))
                    elif k == "delay_to_edge":
                        now = ctx.elapsed_time().femtoseconds
                        t = now
                        for _ in range(op["n"]):
                            t = ref.active_edges_after(op["dom"], t)
                        v = conv(await ctx.delay(Period(fs=t - now)))
                    elif k == "changed_in":
                        v = conv(await ctx.changed({"x": s.x, "en": s.en, "wen2": s.wen2}[op["sig"]]))
                    elif k == "edge":
                        v = conv(await ctx.edge(regs[op["sig"]][op["bit"]], op["pol"]))
                    elif k in ("race", "race_changed"):
                        ref.now = ctx.elapsed_time().femtoseconds
                        fs = ref.race_fs(op)
                        if k == "race":
                            v = conv(await ctx.edge(regs[op["sig"]][op["bit"]], op["pol"]).delay(Period(fs=fs)))
                        else:
                            v = conv(await ctx.changed(regs[op["sig"]]).delay(Period(fs=fs)))
                    else:
                        v = conv(await ctx.changed(regs[op["sig"]]))
                    log.append([i, oi, ctx.elapsed_time().femtoseconds, "wake", v, snapshot(ctx)])
            return tb
        for i, ops in enumerate(case["tbs"]):
            sim.add_testbench(mk(i, ops))
        sim.run()
        final = None
        decisions = S.decisions
        end = sim._engine.now
        if case.get("rerun"):
            # the same simulator once more after reset(): clocks, replaced circuits (their wake-up at time 0 included) and
            # testbenches start over; the observations are those of the first run
            first = list(log)
            del log[:]
            sim.reset()
            sim.run()
            if log != first:
                n = next((j for j, (a, b) in enumerate(zip(log, first)) if a != b), min(len(log), len(first)))
                raise Violation("differs_after_reset", n, {"order": order, "entry": n, "first_run": first[n] if n < len(first) else None,
                                                           "after_reset": log[n] if n < len(log) else None})
            del log[:]
            log.extend(first)
    return log, decisions, end


def _toggle_info(clocks, domains, t):
    """domains toggling at instant t -> {name: new level}"""
    out = {}
    for d in domains:
        c = clocks[d["name"]]
        half = c["period"] // 2
        ph = c["phase"] if c["phase"] is not None else half
        if t >= ph and (t - ph) % half == 0:
            k = (t - ph) // half
            out[d["name"]] = (k + 1) % 2
    return out


def _next_toggle(clocks, domains, t):
    best = None
    for d in domains:
        c = clocks[d["name"]]
        half = c["period"] // 2
        ph = c["phase"] if c["phase"] is not None else half
        nt = ph if t < ph else ph + ((t - ph) // half + 1) * half
        best = nt if best is None else min(best, nt)
    return best


def run_prog_tl(case):
    from amaranth.hdl import Period, Module, ClockDomain, Elaboratable
    from amaranth.sim import Simulator
    from dsim import progen
    from dsim.refint import Ref
    res = Result()
    dig = Digest()
    prog = case["prog"]
    doms = prog["domains"]
    sigs = prog["signals"]
    stats = {"steps": 0, "edges": 0, "sim_fs": 0, "decisions": 0, "faults": {"sched": 0, "tie": 0, "zero_delay": 0, "arst": 0, "srst": 0},
             "probes": {"prog_timeline_runs": 1, "coincident_domains": 0, "orders_executed": 0}}
    P, F = stats["probes"], stats["faults"]
    P.update({k: v for k, v in __import__("dsim.progdrv", fromlist=["x"]).count_features(prog).items()})
    act = {d["name"]: (1 if d["edge"] == "pos" else 0) for d in doms}

    def one(order):
        with scheduler(order[0], order[1]) as S:
            B = progen.build(prog)
            cds = {d["name"]: ClockDomain(d["name"], clk_edge=d["edge"], async_reset=d["async_reset"], reset_less=d["reset_less"])
                   for d in doms}

            from amaranth.hdl import Signal, ClockSignal, DriverConflict
            cnt_g = Signal(4, name="cnt_g")
            first = doms[0]["name"]

            class Top(Elaboratable):
                def elaborate(self, platform):
                    m = Module()
                    for cd in cds.values():
                        m.domains += cd
                    m.submodules.dut = B.top
                    # a domain whose clock is driven by logic (a copy of the first domain's clock): the simulator must refuse
                    # to add a clock to it, and the refusal must leave nothing behind
                    m.domains.g = ClockDomain("g", reset_less=True)
                    m.d.comb += ClockSignal("g").eq(ClockSignal(first))
                    m.d.g += cnt_g.eq(cnt_g + 1)
                    return m
            sim = Simulator(Top())
            if case.get("refused_clock"):
                try:
                    sim.add_clock(Period(fs=case["refused_clock"]), domain="g")
                except DriverConflict:
                    P["add_clock_refused"] = P.get("add_clock_refused", 0) + 1
                else:
                    raise Violation("comb_driven_clock_accepted", -1, {})
            g_count = [0]
            import random as _random
            dl = list(doms)
            if case.get("add_order"):
                _random.Random(case["add_order"]).shuffle(dl)      # the order in which clocks are added must not matter
            for d in dl:
                c = case["clocks"][d["name"]]
                kw = {"phase": Period(fs=c["phase"])} if c["phase"] is not None else {}
                sim.add_clock(Period(fs=c["period"]), domain=cds[d["name"]], **kw)
            ref = Ref(prog)
            rp = case.get("rst_proc")
            if rp:
                async def reset_process(ctx):
                    await ctx.delay(Period(fs=rp["at"]))
                    ctx.set(cds[rp["dom"]].rst, 1)
                sim.add_process(reset_process)

            def compare(ctx, idx, t_expected):
                t = ctx.elapsed_time().femtoseconds
                if t != t_expected:
                    raise Violation("wakeup_time", idx, {"order": order, "elapsed_fs": t, "expected_fs": t_expected})
                for i, sg in enumerate(B.sigs):
                    got = ctx.get(sg)
                    want = ref.sig_value(i)
                    if got != want:
                        raise Violation("observed_values", idx, {"order": order, "signal": i, "name": sigs[i]["name"], "got": got,
                                                                 "expected": want, "t_fs": t})
                for (fid, name), sg in B.ongoing.items():
                    if ctx.get(sg) != int(ref.fsm_state[fid] == name):
                        raise Violation("observed_values", idx, {"order": order, "fsm": fid, "state": name, "t_fs": t})
                if ctx.get(cnt_g) != (g_count[0] & 15):
                    raise Violation("observed_values", idx, {"order": order, "signal": "cnt_g (register clocked by a logic-driven "
                                                             "copy of the first clock)", "got": ctx.get(cnt_g),
                                                             "expected": g_count[0] & 15, "t_fs": t})

            obs_dom = case.get("observer")
            got_obs, exp_obs = [], []
            rise_seen = [False]      # an asynchronous reset rise of the observed domain already completed the observer's wait in this hop

            def ref_vals():
                return [ref.sig_value(i) for i in range(len(sigs))]

            async def observer(ctx):
                # added before the hopping testbench: a one-shot tick wait in a loop, sampling every signal of the program
                while True:
                    clk_hit, rst_active, *vals = await ctx.tick(obs_dom).sample(*B.sigs)
                    got_obs.append([ctx.elapsed_time().femtoseconds, bool(clk_hit), bool(rst_active), [int(v) for v in vals]])
            if obs_dom:
                sim.add_testbench(observer, background=True)

            rep = case.get("repeater")
            got_rep, exp_rep = [], []
            RS = {"count": 0, "done_this_hop": True}     # (armed only once the hopping testbench has reached its first await)

            def rep_event(t_, clk_, rst_):
                """one completion of the repeater's current one-shot wait"""
                RS["done_this_hop"] = True
                if rst_:
                    exp_rep.append([t_, "reset"])
                    RS["count"] = 0
                else:
                    RS["count"] += 1
                    if RS["count"] == rep["n"]:
                        exp_rep.append([t_, "done"])
                        RS["count"] = 0

            async def repeater(ctx):
                from amaranth.sim import DomainReset
                while True:
                    try:
                        await ctx.tick(rep["dom"]).repeat(rep["n"])
                        got_rep.append([ctx.elapsed_time().femtoseconds, "done"])
                    except DomainReset:
                        got_rep.append([ctx.elapsed_time().femtoseconds, "reset"])

            async def tb(ctx):
                now = 0
                base = -1          # toggle instants up to `base` have happened (a phase-0 clock toggles at time 0, after the start)
                compare(ctx, -1, 0)
                for idx, st in enumerate(case["steps"]):
                    if st["k"] == "set":
                        si = st["s"]
                        v = st["v"] & ((1 << sigs[si]["width"]) - 1)
                        sg = B.sigs[si]
                        ctx.set(sg, v - (1 << len(sg)) if (sigs[si]["signed"] and v >> (len(sg) - 1)) else v)
                        ref.set_input(si, v)
                    elif st["k"] == "rst":
                        if ref.rst[st["d"]] != st["l"]:
                            if (st["d"] == obs_dom and st["l"] and ref.doms[obs_dom]["async_reset"] and not rise_seen[0]):
                                # the observer's tick wait is completed by the asynchronous reset: no clock edge, reset active,
                                # values from just before the reset took effect
                                rise_seen[0] = True
                                exp_obs.append([now, False, True, ref_vals()])
                                P["tick_completed_by_async_reset"] = P.get("tick_completed_by_async_reset", 0) + 1
                            if (rep and st["d"] == rep["dom"] and st["l"] and ref.doms[rep["dom"]]["async_reset"]
                                    and not RS["done_this_hop"]):
                                rep_event(now, False, True)
                                P["repeat_interrupted_by_async_reset"] = P.get("repeat_interrupted_by_async_reset", 0) + 1
                            ctx.set(cds[st["d"]].rst, st["l"])
                            if st["l"]:
                                F["arst" if ref.doms[st["d"]]["async_reset"] else "srst"] += 1
                            ref.set_reset(st["d"], st["l"])
                    else:
                        t_next = _next_toggle(case["clocks"], doms, base)
                        await ctx.delay(Period(fs=t_next - now))
                        now = base = t_next
                        tog = _toggle_info(case["clocks"], doms, now)
                        active = {n for n, lvl in tog.items() if lvl == act[n]}
                        if len(tog) >= 2:
                            P["coincident_domains"] += 1
                            F["tie"] += 1
                        stats["edges"] += len(tog)
                        if tog.get(first) == 1:
                            g_count[0] += 1
                        rch = {}
                        if rp and now == rp["at"] and not ref.rst[rp["dom"]]:
                            rch[rp["dom"]] = 1
                            P["process_reset_at_edge_instant"] = P.get("process_reset_at_edge_instant", 0) + 1
                        rise_seen[0] = False
                        RS["done_this_hop"] = False
                        if rep and (rep["dom"] in active or rch.get(rep["dom"])):
                            rep_event(now, rep["dom"] in active, bool(ref.rst.get(rep["dom"], 0)) or bool(rch.get(rep["dom"])))
                            P["repeat_ticks"] = P.get("repeat_ticks", 0) + 1
                        if obs_dom and (obs_dom in active or rch.get(obs_dom)):
                            exp_obs.append([now, obs_dom in active, bool(ref.rst.get(obs_dom, 0)) or bool(rch.get(obs_dom)), ref_vals()])
                            P["tick_observed"] = P.get("tick_observed", 0) + 1
                            if ref.rst.get(obs_dom, 0):
                                P["tick_observed_under_reset"] = P.get("tick_observed_under_reset", 0) + 1
                        if active or rch:
                            ref.instant(active, rch)
                        for n, lvl in tog.items():
                            ref.set_clock(n, lvl)
                    stats["steps"] += 1
                    compare(ctx, idx, now)
                    dig.add((st["k"], now, ref.observe()), state=(order is case["orders"][0]))
            sim.add_testbench(tb)
            if rep:
                sim.add_testbench(repeater, background=True)
            sim.run()
            if rep and got_rep != exp_rep[:len(got_rep)] or (rep and len(exp_rep) - len(got_rep) > 1):
                n = next((j for j, (a, b) in enumerate(zip(got_rep, exp_rep)) if a != b), min(len(got_rep), len(exp_rep)))
                raise Violation("tick_repeat", n, {"order": order, "repeater": rep, "entry": n,
                                                   "got": got_rep[n] if n < len(got_rep) else None,
                                                   "expected": exp_rep[n] if n < len(exp_rep) else None,
                                                   "fields": "[time fs, 'done' (n ticks seen) | 'reset' (DomainReset raised)]"})
            if obs_dom and got_obs != exp_obs:
                n = next((j for j, (a, b) in enumerate(zip(got_obs, exp_obs)) if a != b), min(len(got_obs), len(exp_obs)))
                raise Violation("tick_observations", n, {"order": order, "domain": obs_dom, "entry": n,
                                                         "got": got_obs[n] if n < len(got_obs) else None,
                                                         "expected": exp_obs[n] if n < len(exp_obs) else None,
                                                         "fields": "[time fs, clk_hit, rst_active, sampled signal values]"})
            stats["sim_fs"] += sim._engine.now if hasattr(sim, "_engine") else 0
            if order[0] != "hash":
                stats["decisions"] += S.decisions
            P["orders_executed"] += 1

    def go():
        for order in case["orders"]:
            one(order)
        if stats["decisions"]:
            F["sched"] += 1
    run_guarded(res, go)
    return finish(res, dig, stats, stats["edges"] > 0 and stats["decisions"] > 0)


def run_case(case):
    if case.get("kind") == "prog_tl":
        return run_prog_tl(case)
    res = Result()
    dig = Digest()
    stats = {"steps": 0, "edges": 0, "sim_fs": 0, "decisions": 0, "faults": {"sched": 0, "tie": 0, "zero_delay": 0},
             "probes": {"replaced_comb": 0, "replaced_sync": 0, "twins_same_instant": 0, "coincident_domains": 0,
                        "set_then_get": 0, "tick_sample": 0, "edge_wait": 0, "changed_wait": 0, "unjudged_unreachable_wait": 0,
                        "orders_executed": 0}}
    P, F = stats["probes"], stats["faults"]
    ok = [False]

    def go():
        config = case["config"]
        ref = Reference(config, case["tbs"])
        try:
            expected = ref.run()
        except Unreachable:
            P["unjudged_unreachable_wait"] += 1
            return
        rs = ref.stats
        F["tie"] += rs["tie"]
        F["zero_delay"] += rs["zero_delay"]
        for k in ("twins_same_instant", "coincident_domains", "set_then_get", "tick_sample", "edge_wait", "changed_wait"):
            P[k] += rs[k]
        for k in ("race_wait", "race_tie", "race_won_by_signal", "race_won_by_delay"):
            P[k] = P.get(k, 0) + rs.get(k, 0)
        P["woken_by_testbench"] = P.get("woken_by_testbench", 0) + rs.get("woken_by_testbench", 0)
        P["cross_domain_write_collision"] = P.get("cross_domain_write_collision", 0) + rs.get("cross_domain_write_collision", 0)
        P["process_and_port_write_one_row"] = P.get("process_and_port_write_one_row", 0) + rs.get("process_and_port_write_one_row", 0)
        P["replaced_comb"] += sum(1 for p in config["replace"] if p in ("s1", "s2", "s3", "out"))
        P["replaced_sync"] += sum(1 for p in config["replace"] if p in ("r1", "r2"))
        stats["steps"] += len(expected)
        logs = []
        total_dec = 0
        for order in case["orders"]:
            log, dec, end = simulate(case, order)
            P["orders_executed"] += 1
            stats["sim_fs"] += end
            if order[0] != "hash":
                total_dec += dec
            logs.append(log)
            # positions the reference leaves open ("*") are not compared with it
            log = [(g[:4] + [[("*" if ev == "*" else gv) for gv, ev in zip(g[4], e[4])]] + g[5:])
                   if (isinstance(e[4], list) and "*" in e[4] and isinstance(g[4], list) and len(g[4]) == len(e[4])) else g
                   for g, e in zip(log, expected)] + log[len(expected):]
            # rows the reference leaves open ("*": written from two clocks in one instant) are compared between orders only
            log = [(g[:5] + [[("*" if ev == "*" else gv) for gv, ev in zip(g[5], e[5])]])
                   if (len(g) == 6 and len(e) == 6 and isinstance(e[5], list) and "*" in e[5] and isinstance(g[5], list)
                       and len(g[5]) == len(e[5])) else g
                   for g, e in zip(log, expected)] + log[len(expected):]
            if log != expected:
                n = next((j for j, (a, b) in enumerate(zip(log, expected)) if a != b), min(len(log), len(expected)))
                got = log[n] if n < len(log) else None
                exp = expected[n] if n < len(expected) else None
                if got is not None and exp is not None and got[:2] == exp[:2] and got[2] != exp[2]:
                    oracle = "wakeup_time"
                elif got is not None and exp is not None and got[:2] != exp[:2]:
                    oracle = "testbench_order"
                elif got is not None and exp is not None and got[4] != exp[4]:
                    oracle = "trigger_values"
                else:
                    oracle = "observed_values"
                raise Violation(oracle, n, {"order": order, "entry": n, "got": got, "expected": exp,
                                            "fields": "[testbench, op index, time fs, kind, trigger result, "
                                                      "[x,en,y1,y2,y3,r1,r2,out,r3,md,row0..3]]"})
        for j in range(1, len(logs)):
            if logs[j] != logs[0]:
                raise Violation("differs_between_orders", -1, {"orders": [case["orders"][0], case["orders"][j]]})
        stats["decisions"] += total_dec
        if total_dec:
            F["sched"] += 1
        dig.add(expected)
        ok[0] = rs["tick_wakeups"] > 0 and rs["sets"] > 0 and total_dec > 0 and len(case["orders"]) >= 2

    run_guarded(res, go)
    return finish(res, dig, stats, ok[0])


def signature(case, violation):
    if case.get("kind") == "prog_tl":
        return {"oracle": violation["oracle"], "kind": "prog_tl"}
    sig = {"oracle": violation["oracle"], "replace": sorted(case["config"]["replace"])}
    if violation["oracle"] == "exception":
        sig["exc"] = violation["detail"].get("type")
        sig["where"] = violation["detail"].get("where")
    return sig


def simplify(case):
    if case.get("kind") == "prog_tl":
        from dsim import progdrv
        yield from progdrv.simplify_prog(case)
        if len(case["orders"]) > 1:
            for o in case["orders"]:
                yield dict(case, orders=[o])
        return
    c = case["config"]
    for i in range(len(case["tbs"])):
        if len(case["tbs"]) > 1:
            yield dict(case, tbs=case["tbs"][:i] + case["tbs"][i + 1:])
    for i, ops in enumerate(case["tbs"]):
        for j in range(len(ops) - 1, -1, -1):
            tbs = list(case["tbs"])
            tbs[i] = ops[:j] + ops[j + 1:]
            yield dict(case, tbs=tbs)
    for p in c["replace"]:
        yield dict(case, config=dict(c, replace=[q for q in c["replace"] if q != p]))
    if len(case["orders"]) > 1:
        for o in case["orders"]:
            yield dict(case, orders=[o])
    if c["d2"]:
        yield dict(case, config=dict(c, d2=None),
                   tbs=[[dict(op, dom="d1") if "dom" in op else op for op in ops] for ops in case["tbs"]])
    if c["split"]:
        yield dict(case, config=dict(c, split=0))
