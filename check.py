#!/venv/bin/python
"""Entry point of the deterministic-simulation harness.  See DESIGN.md section 7.

  check.py <ID> [--tier quick|thorough] [--seed N] [--jobs N]     seeded search for one property
  check.py --replay <file>                                        re-execute a recorded violation
  check.py --digests <ID> --indices 0,1,2                         (internal) print trace digests
  check.py selftest determinism [IDs...]                          large-sample determinism test
  check.py selftest models [IDs...]                               oracle/model unit checks

Exit codes: 0 held / 1 VIOLATION / 2 harness error.
"""
import argparse
import os
import sys

HERE = os.path.dirname(os.path.abspath(__file__))
REPO = os.environ.get("VERIF_REPO", "/repo")

# One fixed interpreter configuration: string hashing must not matter, but pin it anyway so that a
# forgotten seam shows up in the determinism self-test (which varies it on purpose) and nowhere else.
if os.environ.get("PYTHONHASHSEED") is None:
    env = dict(os.environ, PYTHONHASHSEED="0", PYTHONDONTWRITEBYTECODE="1")
    env["PYTHONPATH"] = REPO + os.pathsep + HERE + (os.pathsep + env["PYTHONPATH"] if env.get("PYTHONPATH") else "")
    os.execve(sys.executable, [sys.executable] + sys.argv, env)

sys.dont_write_bytecode = True
for p in (HERE, REPO):
    if p not in sys.path:
        sys.path.insert(0, p)

import warnings
warnings.simplefilter("ignore")

from dsim import runner   # noqa: E402

ALL = ["C02", "C03", "C04", "C08", "C09", "C11", "C12", "C13", "C16", "C17", "C18", "C19", "C20"]


def available():
    return [p for p in ALL if os.path.exists(os.path.join(HERE, "props", p.lower() + ".py"))]


def main():
    ap = argparse.ArgumentParser()
    ap.add_argument("target", nargs="*")
    ap.add_argument("--tier", default=os.environ.get("VERIF_TIER", "quick"), choices=["quick", "thorough"])
    ap.add_argument("--seed", type=int, default=None)
    ap.add_argument("--jobs", type=int, default=int(os.environ.get("VERIF_JOBS", "0")) or (os.cpu_count() or 4))
    ap.add_argument("--replay")
    ap.add_argument("--digests")
    ap.add_argument("--indices", default="0")
    ap.add_argument("--runs", type=int, default=None)
    ap.add_argument("--c09-worker", action="store_true")
    args = ap.parse_args()

    seed = args.seed
    if seed is None:
        seed = int(os.environ.get("VERIF_SEED", "20260922" if args.tier == "quick" else "77001"))

    if args.c09_worker:
        from props import c09
        return c09.worker_main()
    if args.replay:
        return runner.replay(args.replay)
    if args.digests:
        return runner.print_digests(args.digests, args.tier, seed, [int(x) for x in args.indices.split(",")])
    if not args.target:
        ap.print_help()
        return 2
    if args.target[0] == "selftest":
        # determinism: tools/selftest_determinism.sh; models: the self_test() of each property module (also run by every check)
        import subprocess
        if args.target[1:2] == ["models"]:
            for p in (args.target[2:] or available()):
                st = getattr(runner.load(p.upper()), "self_test", None)
                if st is not None:
                    st()
                print("%s model self-test ok" % p.upper())
            return 0
        return subprocess.call([os.path.join(HERE, "tools", "selftest_determinism.sh")] + args.target[2:])
    if args.target[0] == "all":
        rc = 0
        for p in available():
            rc = max(rc, runner.check(p, args.tier, seed, args.jobs))
        return rc
    prop = args.target[0].upper()
    if prop not in available():
        print("unknown or unimplemented property %s (available: %s)" % (prop, " ".join(available())))
        return 2
    return runner.check(prop, args.tier, seed, args.jobs)


if __name__ == "__main__":
    sys.stdout.reconfigure(line_buffering=True)
    sys.exit(main())
