"""One integer decides everything: named PRNG streams derived from a seed by SHA-256."""
import hashlib
import json
import random


def h64(*parts):
    """Stable 64-bit hash of JSON-serialisable parts (never uses hash() or id())."""
    data = json.dumps(parts, sort_keys=True, separators=(",", ":"), default=str).encode()
    return int.from_bytes(hashlib.sha256(data).digest()[:8], "big")


def stream(seed, *name):
    """Independent random.Random for (seed, name)."""
    return random.Random(h64(seed, *name))


def digest(obj):
    data = json.dumps(obj, sort_keys=True, separators=(",", ":"), default=str).encode()
    return hashlib.sha256(data).hexdigest()


class Digest:
    """Incremental trace digest + per-step state hashes."""
    def __init__(self):
        self._h = hashlib.sha256()
        self.states = set()
        self.windows = set()      # distinct interleaving windows: 4-grams over the alphabet of simultaneously changed lines

    def add_events(self, events):
        for i in range(len(events) - 3):
            data = "|".join(events[i:i + 4]).encode()
            self.windows.add(int.from_bytes(hashlib.blake2b(data, digest_size=8).digest(), "big"))

    def add(self, obj, state=True):
        data = json.dumps(obj, separators=(",", ":"), default=str).encode()
        self._h.update(data)
        if state:
            self.states.add(int.from_bytes(hashlib.blake2b(data, digest_size=8).digest(), "big"))

    def hexdigest(self):
        return self._h.hexdigest()

    def restart(self):
        """digest so far; hashing starts afresh (states / windows keep accumulating)"""
        d = self._h.hexdigest()
        self._h = hashlib.sha256()
        return d
