"""Manual-mode driver: the harness owns every clock and reset of the design under test.

The DUT is wrapped in a top module that declares the clock domains and drives all clock and reset
signals combinationally from one multi-bit *bus* signal.  One harness step = one whole-signal
`ctx.set(bus, value)`: any subset of clocks/resets changes in the same delta cycle (coincident
edges).  Only whole-signal get/set of the public TestbenchContext API is used.
"""
import io
import sys

from amaranth.hdl import Module, Signal, ClockDomain, Elaboratable
from amaranth.sim import Simulator

from .permset import scheduler, SCHED

__all__ = ["Violation", "Top", "ManualRun", "DomainSpec"]


class Violation(Exception):
    """Raised by an oracle.  `oracle` names the check that fired; `detail` is JSON-serialisable."""
    def __init__(self, oracle, step, detail):
        super().__init__(f"{oracle} at step {step}: {detail}")
        self.oracle = oracle
        self.step = step
        self.detail = detail


def DomainSpec(name, edge="pos", async_reset=False, reset_less=False, drive_rst=True):
    """drive_rst=False: the domain has a reset that the design itself drives (e.g. ResetSynchronizer)."""
    return {"name": name, "edge": edge, "async_reset": bool(async_reset), "reset_less": bool(reset_less),
            "drive_rst": bool(drive_rst)}


class Top(Elaboratable):
    """Wrapper: owns the ClockDomains, drives clk/rst from `bus`."""
    def __init__(self, dut, domains, extra_submodules=(), extra_lines=None):
        self.dut = dut
        self.specs = list(domains)
        self.extra = list(extra_submodules)
        self.extra_lines = dict(extra_lines or {})   # name -> 1-bit Signal driven from the bus as well
        self.lines = []          # bus bit names, e.g. "sync.clk", "sync.rst"
        self.cds = {}
        for d in self.specs:
            cd = ClockDomain(d["name"], clk_edge=d["edge"], async_reset=d["async_reset"],
                             reset_less=d["reset_less"])
            self.cds[d["name"]] = cd
            self.lines.append(d["name"] + ".clk")
            if not d["reset_less"] and d.get("drive_rst", True):
                self.lines.append(d["name"] + ".rst")
        self.lines.extend(self.extra_lines)
        self.bus = Signal(max(1, len(self.lines)), name="verif_bus")

    def elaborate(self, platform):
        m = Module()
        for cd in self.cds.values():
            m.domains += cd
        for i, line in enumerate(self.lines):
            if line in self.extra_lines:
                m.d.comb += self.extra_lines[line].eq(self.bus[i])
                continue
            name, kind = line.rsplit(".", 1)
            sig = self.cds[name].clk if kind == "clk" else self.cds[name].rst
            m.d.comb += sig.eq(self.bus[i])
        if self.dut is not None:
            m.submodules.dut = self.dut
        for i, sub in enumerate(self.extra):
            m.submodules[f"extra{i}"] = sub
        return m


class ManualRun:
    """Runs `body(self)` as the only testbench of a Simulator over Top(dut); never awaits."""
    def __init__(self, dut, domains, sched_mode="insertion", sched_seed=0, extra_submodules=(),
                 capture_stdout=False, extra_lines=None, processes=()):
        self.top = Top(dut, domains, extra_submodules, extra_lines)
        self.processes = list(processes)      # async functions added with Simulator.add_process() before the testbench
        self.levels = {line: 0 for line in self.top.lines}
        self.sched_mode = sched_mode
        self.sched_seed = sched_seed
        self.capture_stdout = capture_stdout
        self.ctx = None
        self.sim = None
        self.decisions = 0
        self.events = []          # one key per drive(): which lines changed, to which level
        self._out = None

    # --- API for bodies ------------------------------------------------------------------------
    def begin_step(self, i):
        SCHED.begin_step(i)

    def set(self, sig, value):
        self.ctx.set(sig, value)

    def get(self, sig):
        return self.ctx.get(sig)

    def drive(self, changes):
        """changes: {"sync.clk": 1, "sync.rst": 0, ...}; one write, all changes coincide."""
        self.levels.update(changes)
        self.events.append(",".join("%s=%d" % kv for kv in sorted(changes.items())))
        v = 0
        for i, line in enumerate(self.top.lines):
            if self.levels[line]:
                v |= 1 << i
        self.ctx.set(self.top.bus, v)

    def level(self, line):
        return self.levels[line]

    def take_stdout(self):
        s = self._out.getvalue()
        self._out.seek(0)
        self._out.truncate(0)
        return s

    # --- execution -----------------------------------------------------------------------------
    def run(self, body):
        with scheduler(self.sched_mode, self.sched_seed) as S:
            old_stdout = sys.stdout
            if self.capture_stdout:
                self._out = io.StringIO()
                sys.stdout = self._out
            try:
                S.begin_step(-1)          # construction and the initial settle draw from their own stream
                self.sim = Simulator(self.top)
                self._body = body
                async def testbench(ctx):
                    self.ctx = ctx
                    self._body(self)
                for proc in self.processes:
                    self.sim.add_process(proc)
                self.sim.add_testbench(testbench)
                self.sim.run()
            finally:
                sys.stdout = old_stdout
                self.decisions = S.decisions
        return self

    def rerun(self, body):
        """Crash/restart: Simulator.reset() on the same simulator object (whatever state the previous run left it in,
        e.g. after an AssertionError escaped from the middle of a delta cycle), then the testbench starts over."""
        with scheduler(self.sched_mode, self.sched_seed) as S:
            old_stdout = sys.stdout
            if self.capture_stdout:
                self._out = io.StringIO()
                sys.stdout = self._out
            try:
                self.levels = {line: 0 for line in self.top.lines}
                self.events = []
                self._body = body
                S.begin_step(-1)
                self.sim.reset()
                self.sim.run()
            finally:
                sys.stdout = old_stdout
                self.decisions += S.decisions
        return self
