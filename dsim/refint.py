"""Reference interpreter for progen program descriptions.

Written from the language guide, without importing Amaranth.  Deliberately tiny:

* every numeric sub-expression is an exact Python integer (the guide: operators never overflow; `//` and `%` by zero
  give 0); an assignment stores the low len(target) bits in two's complement, which *is* "truncate, or extend by the
  value's own signedness";
* width/signedness are used only by bit-sequence operators, which the generator applies only to operands whose shape is
  explicit (signals, shaped constants, results of bit-sequence operators);
* per (module, domain) driver: combinational bits = init overridden by active assignments in program order, synchronous
  bits = previous value overridden likewise at the active edge; inserted resets / enables compose inside-out; the
  domain's own reset is applied last.
"""

__all__ = ["Ref", "shape_of", "bits_for_states"]


def all_fsms(stmts):
    """every FSM descriptor in a statement list, nested ones (an FSM inside a State of another FSM) included"""
    for st in stmts:
        k = st[0]
        if k == "fsm":
            yield st[1]
            for name, body in st[1]["states"]:
                yield from all_fsms(body)
        elif k == "if":
            for arm in st[1]:
                yield from all_fsms(arm[1])
            if st[2]:
                yield from all_fsms(st[2])
        elif k == "switch":
            for pats, body in st[2]:
                yield from all_fsms(body)


def to_signed(v, w):
    if w == 0:
        return 0
    v &= (1 << w) - 1
    return v - (1 << w) if v >> (w - 1) else v


class Ref:
    def __init__(self, prog):
        self.p = prog
        self.sigs = prog["signals"]
        self.val = [s["init"] & ((1 << s["width"]) - 1) for s in self.sigs]       # raw bit patterns
        self.mods = []          # flattened: (module dict, wrapper chain innermost-first)
        self._flatten(prog["top"], [])
        self.fsm_state = {}     # fsm id -> state name
        for m, chain in self.mods:
            for f in all_fsms(m["stmts"]):
                self.fsm_state[f["id"]] = f["init"] if f["init"] is not None else f["states"][0][0]
        self.doms = {d["name"]: d for d in prog["domains"]}
        self.rst = {d["name"]: 0 for d in prog["domains"]}
        self.clk = {d["name"]: 0 for d in prog["domains"]}
        self.cur_chain = []
        self.prints = []        # messages emitted by the last edge() call: list of (module index, domain, text)
        self.failed = []        # assertions that failed at the last edge() call: (module index, domain, kind, message|None)
        self.settle()

    def _flatten(self, m, chain):
        # walking outwards from a statement: the module's own domain definitions, then its own wrappers, then the parent's ...
        chain = ([["shadow", m["shadow"]]] if m.get("shadow") else []) + list(m.get("wrap", [])) + chain
        self.mods.append((m, chain))
        for s in m["subs"]:
            self._flatten(s, chain)

    # ---------------------------------------------------------------------------------------------- expressions
    def shape(self, e):
        return shape_of(e, self.sigs)

    def raw(self, e):
        """bit pattern of an explicit-shape expression"""
        w, s = self.shape(e)
        return self.ev(e) & ((1 << w) - 1)

    def sig_value(self, i):
        s = self.sigs[i]
        return to_signed(self.val[i], s["width"]) if s["signed"] else self.val[i]

    def ev(self, e):
        op = e[0]
        if op == "sig":
            return self.sig_value(e[1])
        if op == "const":
            return e[1]
        if op == "+":
            return self.ev(e[1]) + self.ev(e[2])
        if op == "-":
            return self.ev(e[1]) - self.ev(e[2])
        if op == "*":
            return self.ev(e[1]) * self.ev(e[2])
        if op == "//":
            b = self.ev(e[2])
            return 0 if b == 0 else self.ev(e[1]) // b
        if op == "%":
            b = self.ev(e[2])
            return 0 if b == 0 else self.ev(e[1]) % b
        if op == "neg":
            return -self.ev(e[1])
        if op == "abs":
            return abs(self.ev(e[1]))
        if op in ("==", "!=", "<", "<=", ">", ">="):
            a, b = self.ev(e[1]), self.ev(e[2])
            return int({"==": a == b, "!=": a != b, "<": a < b, "<=": a <= b, ">": a > b, ">=": a >= b}[op])
        if op == "<<":
            return self.ev(e[1]) << self.ev(e[2])
        if op == ">>":
            return self.ev(e[1]) >> self.ev(e[2])
        if op == "&":
            return self.ev(e[1]) & self.ev(e[2])
        if op == "|":
            return self.ev(e[1]) | self.ev(e[2])
        if op == "^":
            return self.ev(e[1]) ^ self.ev(e[2])
        if op == "mux":
            return self.ev(e[2]) if self.ev(e[1]) != 0 else self.ev(e[3])
        if op in ("bool", "any"):
            return int(self.ev(e[1]) != 0)
        # ---- bit-sequence operators: operand shape is explicit
        if op == "~":
            w, s = self.shape(e[1])
            v = self.ev(e[1])
            return (-v - 1) if s else ((1 << w) - 1 - v)
        if op == "all":
            w, s = self.shape(e[1])
            return int(self.raw(e[1]) == (1 << w) - 1)
        if op == "xor":
            return bin(self.raw(e[1])).count("1") & 1
        if op == "slice":
            return (self.raw(e[1]) >> e[2]) & ((1 << (e[3] - e[2])) - 1)
        if op == "cat":
            v, off = 0, 0
            for part in e[1]:
                w, _ = self.shape(part)
                v |= self.raw(part) << off
                off += w
            return v
        if op == "as_signed":
            w, _ = self.shape(e[1])
            return to_signed(self.raw(e[1]), w)
        if op == "as_unsigned":
            return self.raw(e[1])
        if op == "part":
            # bits above the MSB read as zero (unsigned operand) or as the sign bit (signed operand)
            w, s = self.shape(e[1])
            v = self.ev(e[1])            # exact integer: negative values carry their sign bits upwards for free
            off = self.ev(e[2]) * e[4]
            return (v >> off) & ((1 << e[3]) - 1)
        if op == "matches":
            w, s = self.shape(e[1])
            return int(self.match(self.ev(e[1]), self.raw(e[1]), w, e[2]))
        if op == "array":
            return self.ev(e[1][self.ev(e[2])])
        if op == "ongoing":
            return int(self.fsm_state[e[1]] == e[2])
        if op in ("clk", "rst"):
            # ClockSignal / ResetSignal of a domain *name*, resolved late: renamers around the module apply
            cur, _ctl = self.effective(self.cur_chain, e[1])
            return (self.clk if op == "clk" else self.rst)[cur]
        raise AssertionError(op)

    @staticmethod
    def match(value, rawbits, w, patterns):
        for p in patterns:
            if isinstance(p, str):
                p = "".join(p.split())
                ok = True
                for k, ch in enumerate(reversed(p)):
                    if ch != "-" and int(ch) != ((rawbits >> k) & 1):
                        ok = False
                        break
                if ok:
                    return True
            elif p == value:
                return True
        return False

    # ---------------------------------------------------------------------------------------------- targets
    def lbits(self, t):
        op = t[0]
        if op == "sig":
            return [(t[1], k) for k in range(self.sigs[t[1]]["width"])]
        if op == "slice":
            return self.lbits(t[1])[t[2]:t[3]]
        if op == "cat":
            out = []
            for part in t[1]:
                out += self.lbits(part)
            return out
        if op in ("as_signed", "as_unsigned"):
            return self.lbits(t[1])
        if op == "part":
            base = self.lbits(t[1])
            off = self.ev(t[2]) * t[4]
            return [base[off + k] if 0 <= off + k < len(base) else None for k in range(t[3])]
        if op == "array":
            return self.lbits(t[1][self.ev(t[2])])
        raise AssertionError(op)

    # ---------------------------------------------------------------------------------------------- statements
    def run_block(self, stmts, dom, nxt, mi, fsm_next):
        """Executes the statements of domain `dom` in program order.  nxt: {sig: [value, assigned_mask]}."""
        for st in stmts:
            k = st[0]
            if k == "assign":
                if st[1] != dom:
                    continue
                v = self.ev(st[3])
                for pos, loc in enumerate(self.lbits(st[2])):
                    if loc is None:
                        continue
                    si, b = loc
                    cur = nxt.setdefault(si, [0, 0])
                    cur[0] = (cur[0] & ~(1 << b)) | (((v >> pos) & 1) << b)
                    cur[1] |= 1 << b
            elif k == "if":
                for cond, body in st[1]:
                    if body and body[-1][0] == "abort":
                        continue      # the DSL refused a statement in this branch and the caller dropped the whole branch
                    if self.ev(cond) != 0:
                        self.run_block(body, dom, nxt, mi, fsm_next)
                        break
                else:
                    if st[2] is not None:
                        self.run_block(st[2], dom, nxt, mi, fsm_next)
            elif k == "switch":
                w, s = self.shape(st[1])
                value, rawbits = self.ev(st[1]), self.raw(st[1])
                for pats, body in st[2]:
                    if pats is None or self.match(value, rawbits, w, pats):
                        self.run_block(body, dom, nxt, mi, fsm_next)
                        break
            elif k == "fsm":
                f = st[1]
                cur = self.fsm_state[f["id"]]
                for name, body in f["states"]:
                    if name == cur:
                        self.run_block(body, dom, nxt, mi, fsm_next)
                        break
            elif k == "next":
                if dom == st[2]:
                    fsm_next[st[1]] = st[3]
            elif k == "refused":
                pass        # the DSL refused it: no effect
            elif k == "print":
                if st[1] == dom and dom != "comb":
                    if len(st) > 3:
                        # like Python's print(*args, sep=, end=): a bare value prints as "{}" does
                        parts = [self.format(a[1]) if a[0] == "fmt" else (a[1] if a[0] == "str" else self.format([[a[1], ""]]))
                                 for a in st[3]["args"]]
                        self.prints.append((mi, dom, st[3]["sep"].join(parts) + st[3]["end"]))
                    else:
                        self.prints.append((mi, dom, self.format(st[2]) + "\n"))     # Print(...) ends with a newline, like print()
            elif k == "assert":
                if st[1] == dom and dom != "comb":
                    if self.ev(st[2]) == 0:
                        self.failed.append((mi, dom, st[4], self.format(st[3]) if st[3] is not None else None))
            else:
                raise AssertionError(k)

    def format(self, chunks):
        out = []
        for ch in chunks:
            if isinstance(ch, str):
                out.append(ch)
            else:
                expr, spec = ch[0], ch[1]
                if len(ch) > 2:
                    spec = spec.format(*ch[2])       # nested replacement fields
                v = self.ev(expr)
                if spec.endswith("s"):
                    # a byte string, least significant byte first; the generator keeps bytes ASCII and non-NUL except for
                    # NUL padding above the text, which is not part of the string
                    rawv = self.raw(expr)
                    bs = []
                    while rawv:
                        bs.append(rawv & 0xff)
                        rawv >>= 8
                    text = "".join(chr(b) for b in bs)
                    out.append(format(text, spec[:-1]))
                else:
                    out.append(format(v, spec))
        return "".join(out)

    # ---------------------------------------------------------------------------------------------- driver masks
    def owned(self, mi, dom):
        """{sig: mask} of bits driven by (module mi, domain dom), as declared by the program description."""
        m = self.mods[mi][0]
        out = {}
        for (si, lo, hi, d) in m["owns"]:
            if d == dom:
                out[si] = out.get(si, 0) | (((1 << (hi - lo)) - 1) << lo)
        return out

    # ---------------------------------------------------------------------------------------------- evaluation
    def settle(self):
        for _ in range(len(self.sigs) + 4):
            changed = False
            for mi, (m, chain) in enumerate(self.mods):
                own = self.owned(mi, "comb")
                if not own:
                    continue
                nxt = {}
                self.cur_chain = chain
                self.run_block(m["stmts"], "comb", nxt, mi, {})
                for si, mask in own.items():
                    init = self.sigs[si]["init"]
                    v, am = nxt.get(si, [0, 0])
                    new = ((init & ~am) | (v & am)) & mask
                    if (self.val[si] & mask) != new:
                        self.val[si] = (self.val[si] & ~mask) | new
                        changed = True
            if not changed:
                return
        raise AssertionError("reference did not settle: the program description has a combinational cycle")

    def effective(self, chain, dom):
        """Follow the wrapper chain (innermost first): -> (final domain name, [("rst"|"en", control signal index)])."""
        cur = dom
        key = None      # the domain object, once a definition of the current name is met on the way out (None: the outermost one)
        ctl = []
        for w in chain:
            if w[0] == "shadow":
                if key is None and cur in w[1]:
                    key = w[1][cur]
            elif w[0] == "rename":
                cur = w[1].get(cur, cur)
            elif w[0] == "reset" and w[1] == cur:
                ctl.append(("rst", w[2]))
            elif w[0] == "enable" and w[1] == cur:
                ctl.append(("en", w[2]))
            elif w[0] in ("reset_multi", "enable_multi"):
                for d, c in w[1]:
                    if d == cur:
                        ctl.append(("rst" if w[0] == "reset_multi" else "en", c))
        return (key if key is not None else cur), ctl

    def _async_load(self, dom):
        """registers of `dom` (after renaming) take their initial values at once, reset-less ones excepted"""
        for mi, (m, chain) in enumerate(self.mods):
            for od in self.module_domains(m):
                eff, ctl = self.effective(chain, od)
                if eff != dom:
                    continue
                for si, mask in self.owned(mi, od).items():
                    if not self.sigs[si]["reset_less"]:
                        self.val[si] = (self.val[si] & ~mask) | (self.sigs[si]["init"] & mask)
                for f in all_fsms(m["stmts"]):
                    if f["domain"] == od:
                        self.fsm_state[f["id"]] = f["init"] if f["init"] is not None else f["states"][0][0]

    def set_reset(self, dom, level):
        """Change a domain's reset line.  Asynchronous-reset domains load initial values as soon as reset rises."""
        self.instant(set(), {dom: level})

    def instant(self, active, rst_changes):
        """One instant: reset lines change and/or clocks have active edges.  Every register samples pre-instant values; a reset
        that is asserted in this instant counts as asserted at this instant's edges (only generated for asynchronous resets,
        where both orders of the two events agree: resettable registers end at their initial value, reset-less ones take
        their edge)."""
        rises = []
        for dom, level in rst_changes.items():
            old = self.rst[dom]
            self.rst[dom] = level
            if self.doms[dom]["async_reset"] and level and not old:
                rises.append(dom)
        if active:
            self.edge(active)
        for dom in rises:
            if dom not in active:
                self._async_load(dom)
        self.settle()

    def set_clock(self, dom, level):
        """Clock level as seen by combinational logic that reads ClockSignal(); call after edge() (pre-edge sampling)."""
        self.clk[dom] = level
        self.settle()

    @staticmethod
    def module_domains(m):
        ds = []
        for (si, lo, hi, d) in m["owns"]:
            if d != "comb" and d not in ds:
                ds.append(d)
        for d in m.get("stmt_domains", []):
            if d != "comb" and d not in ds:
                ds.append(d)
        return ds

    def edge(self, active):
        """Active clock edges of the domains in `active`, in the same instant.  All reads use pre-edge values."""
        self.prints = []
        self.failed = []
        updates = []
        fsm_updates = {}
        for mi, (m, chain) in enumerate(self.mods):
            for od in self.module_domains(m):
                eff, ctl = self.effective(chain, od)
                if eff not in active:
                    continue
                d = self.doms[eff]
                rst = self.rst[eff] and not d["reset_less"]
                nxt = {}
                fsm_next = {}
                saved_prints = len(self.prints)
                saved_failed = len(self.failed)
                self.cur_chain = chain
                self.run_block(m["stmts"], od, nxt, mi, fsm_next)
                # inserted controls, inside-out
                frozen = False
                for kind, ci in ctl:
                    if kind == "en" and self.val[ci] == 0:
                        frozen = True
                # prints / asserts are gated by inserted enables (they are state updates of a sort: the statement says
                # "freezes every state update"); an inserted reset does not silence them.
                if frozen:
                    del self.prints[saved_prints:]
                    del self.failed[saved_failed:]
                for si, mask in self.owned(mi, od).items():
                    old = self.val[si] & mask
                    v, am = nxt.get(si, [0, 0])
                    new = ((self.val[si] & ~am) | (v & am)) & mask
                    init = self.sigs[si]["init"] & mask
                    for kind, ci in ctl:
                        c = self.val[ci]
                        if kind == "rst":
                            if c and not self.sigs[si]["reset_less"]:
                                new = init
                        else:
                            if not c:
                                new = old
                    if rst and not self.sigs[si]["reset_less"]:
                        new = init
                    updates.append((si, mask, new))
                for f in all_fsms(m["stmts"]):
                    if f["domain"] == od:
                        fid = f["id"]
                        initst = f["init"] if f["init"] is not None else f["states"][0][0]
                        new = fsm_next.get(fid, self.fsm_state[fid])
                        for kind, ci in ctl:
                            c = self.val[ci]
                            if kind == "rst":
                                if c:
                                    new = initst
                            else:
                                if not c:
                                    new = self.fsm_state[fid]
                        if rst:
                            new = initst
                        fsm_updates[fid] = new
        for si, mask, new in updates:
            self.val[si] = (self.val[si] & ~mask) | new
        self.fsm_state.update(fsm_updates)
        self.settle()

    def set_input(self, si, rawv):
        self.val[si] = rawv & ((1 << self.sigs[si]["width"]) - 1)
        self.settle()

    def poke(self, t, v):
        """A testbench write through a structured target over input signals: exactly the addressed bits change."""
        self.cur_chain = []
        for k, b in enumerate(self.lbits(t)):
            if b is not None:
                si, bit = b
                self.val[si] = (self.val[si] & ~(1 << bit)) | (((v >> k) & 1) << bit)
        self.settle()

    def observe(self):
        return list(self.val)


def shape_of(e, sigs):
    op = e[0]
    if op == "sig":
        return sigs[e[1]]["width"], sigs[e[1]]["signed"]
    if op == "const":
        return e[2], e[3]
    if op == "slice":
        return e[3] - e[2], False
    if op == "cat":
        return sum(shape_of(p, sigs)[0] for p in e[1]), False
    if op == "part":
        return e[3], False
    if op == "as_signed":
        return shape_of(e[1], sigs)[0], True
    if op == "as_unsigned":
        return shape_of(e[1], sigs)[0], False
    if op == "~":
        return shape_of(e[1], sigs)
    if op == "array":
        return shape_of(e[1][0], sigs)
    if op in ("all", "xor", "matches", "bool", "any", "ongoing", "clk", "rst", "==", "!=", "<", "<=", ">", ">="):
        return 1, False
    return None
