"""The vendor platform classes, instantiated without any board (no resources, no toolchain is ever run): used to elaborate library
primitives through the platforms' own overrides (get_ff_sync, get_async_ff_sync, buffers)."""

NAMES = ["ice40", "ecp5", "machxo2", "gowin", "xc7", "xc6s", "xc2v", "xc3s", "xc3se", "xc3sa", "altera", "quicklogic"]


def make(name):
    from amaranth import vendor
    table = {
        "ice40": (vendor.SiliconBluePlatform, dict(device="iCE40HX8K", package="CT256"), {}),
        "ecp5": (vendor.LatticePlatform, dict(device="LFE5U-25F", package="BG381", speed="6"), {"toolchain": "Trellis"}),
        "machxo2": (vendor.LatticePlatform, dict(device="LCMXO2-1200HC", package="TG100", speed="4"), {"toolchain": "Diamond"}),
        "gowin": (vendor.GowinPlatform, dict(part="GW1NR-LV9QN88PC6/I5", family="GW1NR-9C"), {"toolchain": "Apicula"}),
        "xc7": (vendor.XilinxPlatform, dict(device="xc7a35ti", package="csg324", speed="1L"), {"toolchain": "Vivado"}),
        "xc6s": (vendor.XilinxPlatform, dict(device="xc6slx9", package="tqg144", speed="2"), {"toolchain": "ISE"}),
        "xc2v": (vendor.XilinxPlatform, dict(device="xc2v40", package="ft256", speed="4"), {}),
        "xc3s": (vendor.XilinxPlatform, dict(device="xc3s50", package="ft256", speed="4"), {}),
        "xc3se": (vendor.XilinxPlatform, dict(device="xc3s500e", package="ft256", speed="4"), {}),
        "xc3sa": (vendor.XilinxPlatform, dict(device="xc3s50a", package="ft256", speed="4"), {}),
        "altera": (vendor.AlteraPlatform, dict(device="5CSEBA6", package="U23", speed="I7"), {}),
        "quicklogic": (vendor.QuicklogicPlatform, dict(device="ql-eos-s3", package="wlcsp"), {}),
    }
    base, attrs, kw = table[name]
    return type("P", (base,), dict(attrs, resources=[], connectors=[]))(**kw)


def on_platform(inner, platform):
    """An elaboratable that elaborates `inner` (and everything below it) for `platform`, whatever platform it is itself elaborated for
    (the simulator elaborates for None)."""
    from amaranth.hdl import Elaboratable, Fragment

    class OnPlatform(Elaboratable):
        def elaborate(self, _platform):
            return Fragment.get(inner, platform)
    return OnPlatform()
