"""Shared driver for progen programs (C02, C03, C20, C04): manual-mode run in lock-step with the reference interpreter."""
import copy

from .rng import Digest
from .simdrv import ManualRun, Violation, DomainSpec
from .refint import Ref
from . import progen


def gen_steps(prog, wl, fl, nsteps, *, p_reset=0.1, p_coincide=0.3, ctl_bias=0.5, allow_reset=True, p_mixed=0.0, setx=None):
    """Manual-mode step list for a program: input writes, clock level changes (alone / coincident), reset lines."""
    doms = prog["domains"]
    sigs = prog["signals"]
    inputs = [i for i, s in enumerate(sigs) if s["role"] == "input" and s["width"] > 0]
    ctls = [i for i, s in enumerate(sigs) if s["role"] == "ctl"]
    levels = {}
    for d in doms:
        levels[d["name"] + ".clk"] = 0
        if not d["reset_less"]:
            levels[d["name"] + ".rst"] = 0
    steps = []
    # structured testbench writes: ctx.set() through slices / concatenations / part selects / array elements of input signals, and
    # writes that must be refused (the target includes a combinationally driven signal) without any effect, now or later
    gx = progen._Gen(wl, {})
    gx.sigs = sigs
    in_chunks = [(i, 0, sigs[i]["width"]) for i in inputs]
    in_chunks += [(i, 0, sigs[i]["width"] // 2) for i in inputs if sigs[i]["width"] >= 2]      # (slices as array elements etc.)
    comb_sigs = set()

    def _comb(m):
        for (si_, lo_, hi_, d_) in m["owns"]:
            if d_ == "comb" and hi_ > lo_:
                comb_sigs.add(si_)
        for sub in m["subs"]:
            _comb(sub)
    _comb(prog["top"])
    comb_sigs = sorted(comb_sigs)
    p_setx = setx if setx is not None else 0.0
    # start with the inserted enables mostly on
    for c in ctls:
        if wl.random() < 0.6:
            steps.append({"k": "set", "s": c, "v": 1 if sigs[c]["width"] == 1 else wl.randrange(1, 1 << sigs[c]["width"])})
    while len(steps) < nsteps:
        for _ in range(wl.choice([0, 1, 1, 2, 3])):
            if ctls and wl.random() < ctl_bias * 0.4:
                c = wl.choice(ctls)
                steps.append({"k": "set", "s": c, "v": wl.randint(0, 1) if sigs[c]["width"] == 1 else wl.randrange(1 << sigs[c]["width"])})
            elif inputs and p_setx and wl.random() < p_setx:
                c = wl.choice(in_chunks)
                t = gx.target(c, [x for x in in_chunks if x[0] != c[0] and wl.random() < 0.7], list(range(len(sigs))))
                tw = progen.shape_of(t, sigs)[0]
                if tw:
                    if comb_sigs and fl.random() < 0.25:
                        parts = [t, ["sig", fl.choice(comb_sigs)]]
                        if fl.random() < 0.5:
                            parts.reverse()
                        steps.append({"k": "setr", "t": ["cat", parts], "v": wl.randrange(1 << (tw + 2))})
                    else:
                        steps.append({"k": "setx", "t": t, "v": wl.randrange(1 << tw)})
            elif inputs:
                i = wl.choice(inputs)
                w = sigs[i]["width"]
                steps.append({"k": "set", "s": i, "v": wl.choice([0, (1 << w) - 1, wl.randrange(1 << w), wl.randrange(1 << w)])})
        rst_lines = [k for k in levels if k.endswith(".rst")]
        if allow_reset and rst_lines and fl.random() < p_reset:
            ln = fl.choice(rst_lines)
            levels[ln] ^= 1
            steps.append({"k": "ev", "l": {ln: levels[ln]}})
            if levels[ln] and fl.random() < 0.3:
                # short pulse with no clock edge in between
                levels[ln] = 0
                steps.append({"k": "ev", "l": {ln: 0}})
            continue
        clk_lines = [k for k in levels if k.endswith(".clk")]
        which = [wl.choice(clk_lines)]
        if len(clk_lines) > 1 and fl.random() < p_coincide:
            which = clk_lines if wl.random() < 0.7 else wl.sample(clk_lines, 2)
        ch = {}
        for ln in which:
            levels[ln] ^= 1
            ch[ln] = levels[ln]
        if p_mixed and fl.random() < p_mixed:
            # an asynchronous reset asserted in the very instant of clock edges
            cands = [d["name"] + ".rst" for d in doms if d["async_reset"] and not d["reset_less"] and not levels[d["name"] + ".rst"]]
            if cands:
                ln = fl.choice(cands)
                levels[ln] = 1
                ch[ln] = 1
        steps.append({"k": "ev", "l": ch})
    return steps


class Unjudged(Exception):
    pass


class ProgRun:
    """Runs a program in the real simulator in lock-step with the reference; subclasses hook `after_step`."""
    def __init__(self, case, stats, capture_stdout=False, compare_ref=True):
        self.compare_ref = compare_ref
        self.case = case
        self.prog = case["prog"]
        self.stats = stats
        self.B = progen.build(self.prog)
        doms = [DomainSpec(d["name"], edge=d["edge"], async_reset=d["async_reset"], reset_less=d["reset_less"])
                for d in self.prog["domains"] if not d.get("shadow_of")]
        self.act = {d["name"]: (1 if d["edge"] == "pos" else 0) for d in self.prog["domains"]}
        # domains that a module defines for itself (shadowing an outer one of the same name): their clock / reset signals are
        # extra lines of the bus
        extra = {}
        for key, cd in self.B.shadow_cds.items():
            extra[key + ".clk"] = cd.clk
            if cd.rst is not None:
                extra[key + ".rst"] = cd.rst
        self.run = ManualRun(self.B.top, doms, sched_mode=case["sched"]["mode"], sched_seed=case["sched"]["seed"],
                             capture_stdout=capture_stdout, extra_lines=extra or None)
        self.dig = Digest()

    def execute(self, hook=None, on_exception=None, rerun=False):
        prog = self.prog
        sigs = prog["signals"]
        stats = self.stats
        F, P = stats["faults"], stats["probes"]

        def body(drv):
            ref = Ref(prog)
            self.ref = ref
            lv = {}
            for d in prog["domains"]:
                lv[d["name"] + ".clk"] = 0
                if not d["reset_less"]:
                    lv[d["name"] + ".rst"] = 0
            sets_since = 0

            def compare(step):
                exact = [drv.get(s) for s in self.B.sigs]
                got = [v & ((1 << len(s)) - 1) for v, s in zip(exact, self.B.sigs)]
                exp = ref.observe()
                if not self.compare_ref:
                    return got, []
                # what a testbench reads must be the value in the signal's own shape (a signed signal reads as a signed int)
                for i, v in enumerate(exact):
                    want = ref.sig_value(i)
                    if v != want and got[i] == exp[i]:
                        raise Violation("signal_value_not_normalised", step, {"signal": i, "name": sigs[i]["name"], "read": v,
                                                                             "expected": want, "signed": sigs[i]["signed"],
                                                                             "width": sigs[i]["width"]})
                if got != exp:
                    i = next(k for k in range(len(got)) if got[k] != exp[k])
                    raise Violation("signal_value", step, {"signal": i, "name": sigs[i]["name"], "role": sigs[i]["role"],
                                                           "got": got[i], "expected": exp[i], "width": sigs[i]["width"]})
                og = []
                for (fid, name), sig in self.B.ongoing.items():
                    g = drv.get(sig)
                    e = int(ref.fsm_state[fid] == name)
                    og.append(g)
                    if g != e:
                        raise Violation("fsm_ongoing", step, {"fsm": fid, "state": name, "got": g, "expected": e,
                                                              "reference_state": ref.fsm_state[fid]})
                return got, og

            obs = compare(-1)
            if hook:
                hook(drv, ref, -1, None, set())
            for idx, st in enumerate(self.case["steps"]):
                drv.begin_step(idx)
                stats["steps"] += 1
                active = set()
                if st["k"] == "set":
                    si = st["s"]
                    if si < len(sigs) and sigs[si]["role"] in ("input", "ctl"):
                        v = st["v"] & ((1 << sigs[si]["width"]) - 1)
                        s = self.B.sigs[si]
                        sv = v - (1 << len(s)) if (sigs[si]["signed"] and len(s) and v >> (len(s) - 1)) else v
                        drv.set(s, sv)
                        ref.set_input(si, v)
                        if sigs[si]["role"] == "ctl":
                            F["gate"] = F.get("gate", 0) + 1
                        sets_since += 1
                        if sets_since == 3:
                            F["glitch-in"] = F.get("glitch-in", 0) + 1
                elif st["k"] == "setx":
                    drv.set(self.B.ex(st["t"]), st["v"])
                    ref.poke(st["t"], st["v"])
                    P["structured_write"] = P.get("structured_write", 0) + 1
                elif st["k"] == "setr":
                    from amaranth.hdl import DriverConflict
                    try:
                        drv.set(self.B.ex(st["t"]), st["v"])
                    except DriverConflict:
                        F["refused_write"] = F.get("refused_write", 0) + 1
                    else:
                        # no statement of the program ended up driving that signal combinationally (a minimised program, an
                        # aborted branch): the write is legal, but the reference's notion of who owns those bits no longer
                        # applies - the rest of the run is not judged
                        raise Unjudged()
                else:
                    changes = {}
                    rst_changes = {}
                    for ln, lvl in st["l"].items():
                        if ln in lv and lv[ln] != lvl:
                            changes[ln] = lvl
                    # a reset change shares a step with clock changes only when it is the *assertion* of an *asynchronous* reset
                    # (both orders of the two events then agree); anything else is ambiguous and is taken apart
                    if any(k.endswith(".rst") for k in changes) and any(k.endswith(".clk") for k in changes):
                        ok = all((not k.endswith(".rst")) or (v == 1 and ref.doms[k[:-4]]["async_reset"]) for k, v in changes.items())
                        if ok:
                            P["async_reset_with_clock_edge"] = P.get("async_reset_with_clock_edge", 0) + 1
                        else:
                            changes = {k: v for k, v in changes.items() if k.endswith(".rst")}
                    for ln, lvl in changes.items():
                        lv[ln] = lvl
                        dom, kind = ln.rsplit(".", 1)
                        if kind == "rst":
                            rst_changes[dom] = lvl
                        else:
                            stats["edges"] += 1
                            if lvl == self.act[dom]:
                                active.add(dom)
                    if len([k for k in changes if k.endswith(".clk")]) >= 2:
                        F["coincide"] = F.get("coincide", 0) + 1
                    if changes and not active and not rst_changes:
                        F["inactive"] = F.get("inactive", 0) + 1
                    for dom, lvl in rst_changes.items():
                        d = ref.doms[dom]
                        if lvl:
                            F["arst" if d["async_reset"] else "srst"] = F.get("arst" if d["async_reset"] else "srst", 0) + 1
                    if changes:
                        try:
                            drv.drive(changes)
                        except BaseException as e:
                            if on_exception is None or not on_exception(drv, ref, idx, st, active, rst_changes, e):
                                raise
                    if rst_changes or active:
                        ref.instant(active, rst_changes)
                    if active:
                        sets_since = 0
                        if any(ref.rst[a] for a in active):
                            P["edge_under_reset"] = P.get("edge_under_reset", 0) + 1
                if st["k"] == "ev":
                    for ln, lvl in changes.items():
                        if ln.endswith(".clk"):
                            ref.set_clock(ln[:-4], lvl)
                new = compare(idx)
                if new != obs:
                    P["obs_changes"] = P.get("obs_changes", 0) + 1
                obs = new
                if hook:
                    hook(drv, ref, idx, st, active)
                self.dig.add((st["k"], obs))

        try:
            if rerun:
                self.run.rerun(body)
            else:
                self.run.run(body)
        except Unjudged:
            P["unjudged_accepted_write"] = P.get("unjudged_accepted_write", 0) + 1
        finally:
            self.dig.add_events(self.run.events)
            stats["decisions"] = self.run.decisions
        return self


def rename_target_shadowed(prog):
    """True if some module defines a local clock domain under a name that a DomainRenamer applied to that module or to one of its
    ancestors renames something *to* - the construct behind open finding F58 (the renamed logic inside is captured by the local
    domain instead of moving to the domain of that name outside the wrapped design)"""
    def walk(m, targets):
        t = set(targets)
        for w in m["wrap"]:
            if w[0] == "rename":
                t |= set(w[1].values())
        if any(n in t for n in (m.get("shadow") or {})):
            return True
        return any(walk(s_, t) for s_ in m["subs"])
    return walk(prog["top"], set())


def partial_part_targets(prog):
    """number of assignment targets that apply a part select to a *whole* signal of which the assigning (module, domain) owns
    only some bits (its reachable bits all lie inside those) - the construct behind open finding F28"""
    n = [0]

    def tgt(t, m, dom):
        while t[0] in ("as_signed", "as_unsigned"):
            t = t[1]
        if t[0] == "part" and t[1][0] == "sig":
            si = t[1][1]
            w = prog["signals"][si]["width"]
            own = sum(hi - lo for (s_, lo, hi, d_) in m["owns"] if s_ == si and d_ == dom)
            if own < w:
                n[0] += 1

    def stmts(lst, m):
        for st in lst:
            if st[0] == "assign":
                tgt(st[2], m, st[1])
            elif st[0] == "if":
                for c, b in st[1]:
                    stmts(b, m)
                if st[2]:
                    stmts(st[2], m)
            elif st[0] == "switch":
                for pp, b in st[2]:
                    stmts(b, m)
            elif st[0] == "fsm":
                for nm, b in st[1]["states"]:
                    stmts(b, m)

    def mods(m):
        stmts(m["stmts"], m)
        for sub in m["subs"]:
            mods(sub)
    mods(prog["top"])
    return n[0]


def count_features(prog):
    """static probes: which language features the program uses"""
    import json
    txt = json.dumps(prog)
    feats = {}
    for key, tag in (('_multi"', "multi_domain_inserter"), ('"inner"', "nested_fsm"), ('"abort"', "aborted_elif_branch"), ('"refused"', "refused_statement"), ('"shadow"', "shadowing_domain"), ('"clk"', "clock_signal_read"), ('"rst"', "reset_signal_read"), ('"if"', "if"), ('"switch"', "switch"), ('"fsm"', "fsm"), ('"part"', "part"), ('"array"', "array"),
                     ('"cat"', "cat"), ('"as_signed"', "as_signed"), ('"matches"', "matches"), ('"reset"', "reset_inserter"),
                     ('"enable"', "enable_inserter"), ('"rename"', "domain_renamer"), ('"print"', "print"),
                     ('"assert"', "assert"), ('"-', "dontcare_pattern")):
        if key in txt:
            feats[tag] = 1
    if any(d["async_reset"] for d in prog["domains"]):
        feats["async_domain"] = 1
    if any(d["edge"] == "neg" for d in prog["domains"]):
        feats["negedge_domain"] = 1
    if any(s["reset_less"] and s["role"] == "driven" for s in prog["signals"]):
        feats["reset_less_signal"] = 1
    if any(s["width"] == 0 for s in prog["signals"]):
        feats["zero_width"] = 1

    if partial_part_targets(prog):
        feats["part_select_on_partly_owned_signal"] = 1

    def nmods(m):
        return 1 + sum(nmods(s) for s in m["subs"])
    if nmods(prog["top"]) > 1:
        feats["submodules"] = 1
    return feats


def simplify_prog(case):
    """Candidate smaller programs: drop statements one at a time (anywhere in the tree), drop wrappers, drop submodules'
    statement lists."""
    prog = case["prog"]

    def stmt_lists(m, path):
        yield m["stmts"], path + ("stmts",)
        for i, s in enumerate(m["subs"]):
            yield from stmt_lists(s, path + ("subs", i))

    def nested(stmts):
        """yield (list, index) for every statement position, depth first"""
        for i, st in enumerate(stmts):
            yield stmts, i
            if st[0] == "if":
                for cond, body in st[1]:
                    yield from nested(body)
                if st[2]:
                    yield from nested(st[2])
            elif st[0] == "switch":
                for pats, body in st[2]:
                    yield from nested(body)
            elif st[0] == "fsm":
                for name, body in st[1]["states"]:
                    yield from nested(body)

    # count positions, then yield copies with one removed
    positions = []
    def walk(m):
        for lst, i in nested(m["stmts"]):
            positions.append(1)
        for s in m["subs"]:
            walk(s)
    walk(prog["top"])
    for n in range(len(positions) - 1, -1, -1):
        cand = copy.deepcopy(case)
        k = [0]
        done = [False]
        def walk2(m):
            for lst, i in list(nested(m["stmts"])):
                if done[0]:
                    return
                if k[0] == n:
                    del lst[i]
                    done[0] = True
                    return
                k[0] += 1
            for s in m["subs"]:
                if not done[0]:
                    walk2(s)
        walk2(cand["prog"]["top"])
        if done[0]:
            yield cand
    # wrappers
    def walkw(m, path):
        for i in range(len(m.get("wrap", []))):
            yield path, i
        for j, s in enumerate(m["subs"]):
            yield from walkw(s, path + (j,))
    for path, i in walkw(prog["top"], ()):
        cand = copy.deepcopy(case)
        m = cand["prog"]["top"]
        for j in path:
            m = m["subs"][j]
        del m["wrap"][i]
        yield cand
