"""dsim: deterministic-simulation kernel for the amaranth verification harness (see /verif/DESIGN.md)."""
