"""The scheduler seam.

`amaranth.sim.pysim` and `amaranth.sim._pyrtl` look `set` up as a module global; binding that name to
`PermSet` in those two modules (and nowhere else) hands the harness every order the engine leaves open:

* `_FragmentCompiler.__call__`: `processes = set()`, `domains = set(fragment.statements)`
* `PySimEngine._processes` (the set built above), `PySimEngine._active_triggers`
* `_PyEngineState.pending`
* `_PyTimeline.advance`: `nearest_wakers = set()`
* `_PyTriggerState._triggers_hit` (membership only)

PermSet keeps insertion order (itself decided by earlier permutations, hence by the seed) and yields,
on every iteration over >= 2 elements, an order chosen by the current schedule mode.
No source change in /repo is needed.
"""
import random

from .rng import h64

__all__ = ["PermSet", "SCHED", "scheduler"]


class _Sched:
    def __init__(self):
        self.mode = "insertion"   # insertion | reverse | seeded | hash
        self.seed = 0
        self.step = 0
        self._rng = None
        self._rng_step = None
        self.decisions = 0        # permuted iterations over >= 2 elements
        self.iterations = 0       # all iterations
        self.installed = False

    def begin_step(self, step_id):
        self.step = step_id

    def order(self, items):
        self.iterations += 1
        n = len(items)
        if n < 2:
            return items
        self.decisions += 1
        mode = self.mode
        if mode == "insertion":
            return items
        if mode == "reverse":
            items.reverse()
            return items
        if mode == "rotate":
            k = self.seed % n
            return items[k:] + items[:k]
        # seeded: permutation = f(seed, step id, n-th iteration within that step)
        if self._rng_step != (self.seed, self.step):
            self._rng = random.Random(h64("sched", self.seed, self.step))
            self._rng_step = (self.seed, self.step)
        self._rng.shuffle(items)
        return items


SCHED = _Sched()


class PermSet:
    """Insertion-ordered set whose iteration order is decided by SCHED."""
    __slots__ = ("_d",)

    def __init__(self, iterable=()):
        self._d = dict.fromkeys(iterable)

    def add(self, x):
        self._d[x] = None

    def update(self, *others):
        for o in others:
            for x in o:
                self._d[x] = None

    def discard(self, x):
        self._d.pop(x, None)

    def remove(self, x):
        del self._d[x]

    def pop(self):
        items = SCHED.order(list(self._d))
        x = items[0]
        del self._d[x]
        return x

    def clear(self):
        self._d.clear()

    def copy(self):
        return PermSet(self._d)

    def __contains__(self, x):
        return x in self._d

    def __len__(self):
        return len(self._d)

    def __bool__(self):
        return bool(self._d)

    def __iter__(self):
        return iter(SCHED.order(list(self._d)))

    def __sub__(self, other):
        return PermSet(x for x in self._d if x not in other)

    def __or__(self, other):
        r = PermSet(self._d)
        r.update(other)
        return r

    def __and__(self, other):
        return PermSet(x for x in self._d if x in other)

    def __eq__(self, other):
        if isinstance(other, PermSet):
            return self._d.keys() == other._d.keys()
        if isinstance(other, (set, frozenset)):
            return set(self._d) == other
        return NotImplemented

    def __repr__(self):
        return "PermSet(%r)" % (list(self._d),)


class scheduler:
    """Context manager: install the seam with a mode and seed; `hash` mode = shipped behaviour."""
    def __init__(self, mode="insertion", seed=0):
        self.mode = mode
        self.seed = seed

    def __enter__(self):
        from amaranth.sim import pysim, _pyrtl
        SCHED.mode = self.mode
        SCHED.seed = self.seed
        SCHED.step = 0
        SCHED._rng_step = None
        SCHED.decisions = 0
        SCHED.iterations = 0
        if self.mode == "hash":
            for mod in (pysim, _pyrtl):
                mod.__dict__.pop("set", None)
            SCHED.installed = False
        else:
            pysim.set = PermSet
            _pyrtl.set = PermSet
            SCHED.installed = True
        return SCHED

    def __exit__(self, *exc):
        from amaranth.sim import pysim, _pyrtl
        for mod in (pysim, _pyrtl):
            mod.__dict__.pop("set", None)
        SCHED.installed = False
        return False
