"""progen: generator of legal-by-construction program descriptions (plain JSON data) + builder of real Amaranth objects.

See DESIGN.md section 2.6.  A description has:
  domains : [{"name","edge","async_reset","reset_less"}]
  signals : [{"name","width","signed","init"(raw),"reset_less","role": "input"|"driven"|"ctl"}]
  top     : module = {"name": str|None, "stmts": [...], "subs": [module], "owns": [[sig, lo, hi, domain]], "wrap": [...],
                      "stmt_domains": [...]}
Statements:  ["assign", dom, target, expr] | ["if", [[cond, [stmts]]...], else|None] | ["switch", test, [[patterns|None, [stmts]]...]]
             | ["fsm", {"id","name","domain","init","states": [[name, [stmts]]...]}] | ["next", fsm id, fsm domain, state]
             | ["print", dom, chunks] | ["assert", dom, cond, chunks|None, "assert"|"assume"]
Targets / expressions: see dsim/refint.py.
"""
from json import dumps as json_dumps

from .refint import shape_of

__all__ = ["gen_program", "build", "Built"]


# ======================================================================================================================
# generator
class _Gen:
    def __init__(self, rng, opts):
        self.r = rng
        self.o = opts
        self.sigs = []
        self.fsm_count = 0

    def explicit_unsigned(self, readable, maxw=3):
        """small explicit unsigned expression (shift amounts, offsets, indices)"""
        r = self.r
        cands = [i for i in readable if not self.sigs[i]["signed"] and self.sigs[i]["width"] > 0]
        if cands and r.random() < 0.8:
            i = r.choice(cands)
            w = self.sigs[i]["width"]
            if w <= maxw:
                return ["sig", i]
            lo = r.randrange(0, w - maxw + 1)
            return ["slice", ["sig", i], lo, lo + r.randint(1, maxw)]
        w = r.randint(1, maxw)
        return ["const", r.randrange(1 << w), w, False]

    def explicit(self, readable, depth):
        """expression with an explicit shape"""
        r = self.r
        k = r.random()
        if depth <= 0 or k < 0.35:
            if readable and r.random() < 0.85:
                return ["sig", r.choice(readable)]
            w = r.randint(0, 6)
            s = r.random() < 0.4 and w > 0
            v = r.randrange(1 << w) if w else 0
            if s:
                v = v - (1 << w) if v >> (w - 1) else v
            return ["const", v, w, s]
        inner = self.explicit(readable, depth - 1)
        w, s = shape_of(inner, self.sigs)
        if k < 0.5 and w > 0:
            a = r.randrange(0, w)
            b = r.randint(a, w)
            return ["slice", inner, a, b]
        if k < 0.62:
            parts = [inner] + [self.explicit(readable, depth - 1) for _ in range(r.randint(0, 2))]
            return ["cat", parts]
        if k < 0.72:
            return ["~", inner]
        if k < 0.8 and w > 0:
            return ["as_signed", inner]
        if k < 0.86:
            return ["as_unsigned", inner]
        if k < 0.95:
            width = r.randint(0, 4)
            stride = r.choice([1, width]) if width else 1
            return ["part", inner, self.explicit_unsigned(readable), width, stride]
        return inner

    def patterns(self, w, s, n=None):
        r = self.r
        pats = []
        for _ in range(n if n is not None else r.randint(0, 3)):
            q = r.random()
            if q < 0.45:
                lo, hi = (-(1 << (w - 1)), (1 << (w - 1)) - 1) if (s and w) else (0, (1 << w) - 1)
                pats.append(r.randint(lo, hi))
            elif q < 0.55:
                pats.append(r.randint(-(1 << w) - 2, (2 << w) + 2))      # possibly not representable: never matches
            else:
                p = "".join(r.choice("01-") for _ in range(w))
                if w >= 4 and r.random() < 0.2:
                    p = p[:2] + " " + p[2:]
                pats.append(p)
        return pats

    def numeric(self, readable, depth):
        """exact-integer expression"""
        r = self.r
        k = r.random()
        if depth <= 0 or k < 0.3:
            return self.explicit(readable, 1 if depth > 0 else 0)
        a = self.numeric(readable, depth - 1)
        if k < 0.62:
            op = r.choice(["+", "-", "*", "&", "|", "^", "==", "!=", "<", "<=", ">", ">="])
            return [op, a, self.numeric(readable, depth - 1)]
        if k < 0.7:
            return [r.choice(["//", "%"]), a, self.numeric(readable, depth - 1)]
        if k < 0.76:
            return [r.choice(["neg", "abs", "bool", "any"]), a]
        if k < 0.83:
            amt = self.explicit_unsigned(readable)
            q = r.random()
            if q < 0.25:
                # amounts whose top bits are equal (as constants, or as one signal bit used twice): operand shortening in the
                # backend must not treat them as sign extension
                amt = ["const", r.choice([3, 6, 7, 3]), r.choice([2, 3, 3, 3]), False]
                if amt[1] >= (1 << amt[2]):
                    amt[1] = (1 << amt[2]) - 1
            elif q < 0.35:
                b = self.explicit_unsigned(readable, maxw=1)
                if shape_of(b, self.sigs)[0] == 1:
                    amt = ["cat", [b, b]]
            lhs = a
            if r.random() < 0.4:
                # make sure signed operands of shifts are well represented
                sg = [i for i in readable if self.sigs[i]["signed"] and self.sigs[i]["width"] >= 3]
                if sg:
                    lhs = ["sig", r.choice(sg)]
            return [r.choice(["<<", ">>"]), lhs, amt]
        if k < 0.88:
            return ["mux", self.numeric(readable, depth - 1), a, self.numeric(readable, depth - 1)]
        if k < 0.91:
            # reading an Array of values of unrelated shapes by a computed index (out of range: the last element)
            # (the index is always in range, as for Array targets: what an out-of-range index selects is not specified)
            kbits = r.choice([1, 1, 2])
            elems = [a] + [self.numeric(readable, depth - 1) for _ in range((1 << kbits) - 1)]
            idx = self.explicit_unsigned(readable, maxw=kbits)
            if shape_of(idx, self.sigs)[0] > kbits:
                idx = ["slice", idx, 0, kbits]
            return ["array", elems, idx]
        e = self.explicit(readable, depth)
        w, s = shape_of(e, self.sigs)
        q = r.random()
        if q < 0.4:
            return [r.choice(["all", "xor"]), e]
        if q < 0.8:
            return ["matches", e, self.patterns(w, s, r.randint(1, 3))]
        return e

    # ------------------------------------------------------------------------------------------------ targets
    def target(self, chunk, all_owned, readable):
        """chunk = (sig, lo, hi) owned by the current (module, domain); all_owned: other chunks with the same owner"""
        r = self.r
        si, lo, hi = chunk
        w = self.sigs[si]["width"]
        whole = (lo == 0 and hi == w)
        base = ["sig", si] if whole else ["slice", ["sig", si], lo, hi]
        if self.sigs[si].get("late"):
            return base
        if not whole and w > 0 and hi > lo and self.o.get("reinterpreted_slices", True) and r.random() < 0.1:
            # a slice of the *reinterpreted* whole signal, of which this (module, domain) owns these bits only: the other bits belong
            # to other drivers and are not touched
            return ["slice", [r.choice(["as_signed", "as_unsigned"]), ["sig", si]], lo, hi]
        all_owned = [c for c in all_owned if not self.sigs[c[0]].get("late")]
        k = r.random()
        n = hi - lo
        if k < 0.4 or n == 0:
            t = base
        elif k < 0.6:
            a = r.randrange(0, n)
            b = r.randint(a, n)
            t = ["slice", ["sig", si], lo + a, lo + b] if r.random() < 0.6 else ["slice", base, a, b]
        elif k < 0.72:
            others = [c for c in all_owned if c[0] != si]
            r.shuffle(others)
            seen = {si}
            parts = [base]
            for c in others[:2]:
                if c[0] in seen:
                    continue
                seen.add(c[0])
                cw = self.sigs[c[0]]["width"]
                parts.append(["sig", c[0]] if (c[1] == 0 and c[2] == cw) else ["slice", ["sig", c[0]], c[1], c[2]])
            r.shuffle(parts)
            t = ["cat", parts]
        elif k < 0.86 and not whole and lo == 0 and n >= 2 and self.o.get("partial_part") and r.random() < 0.3:
            # a part select applied to the *whole* signal whose reachable bits all lie inside this chunk: the rest of the signal
            # belongs to another driver and must be left alone
            obits = 1
            stride = 1
            width = r.randint(1, n - 1)
            if (3 * stride + width) <= n and r.random() < 0.5:
                obits = 2
            off = self.explicit_unsigned(readable, maxw=obits)
            t = ["part", ["sig", si], off, width, stride]
        elif k < 0.86 and not whole and n >= 1:
            # a part select of a *slice*: what falls outside the slice is dropped, the rest of the signal is not touched
            width = r.randint(0, min(4, n + 1))
            stride = r.choice([1, width]) if width else 1
            t = ["part", base, self.explicit_unsigned(readable), width, stride]
        elif k < 0.86 and whole and w > 0:
            width = r.randint(0, min(4, w + 1))
            stride = r.choice([1, width]) if width else 1
            off = self.explicit_unsigned(readable)
            if r.random() < 0.12:
                # a wide offset (think of a 64-bit address) that is far out of range: nothing is assigned, at no cost
                # (2**60: an implementation that shifts by the offset fails at once instead of exhausting the machine's memory)
                off = ["cat", [off, ["const", 1 << 57, 58, False]]]
            t = ["part", ["sig", si], off, width, stride]
        elif k < 0.9 and n > 0:
            # array of chunks of unrelated widths / signedness with the same owner (this chunk among them), optionally addressed
            # through a slice of the proxy: bits that fall outside a narrow element must be dropped
            others = [c for c in all_owned if c[0] != si and c[2] > c[1]]
            r.shuffle(others)
            seen = {si}
            elems = [base]
            for c in others:
                if c[0] in seen:
                    continue
                seen.add(c[0])
                cw = self.sigs[c[0]]["width"]
                elems.append(["sig", c[0]] if (c[1] == 0 and c[2] == cw) else ["slice", ["sig", c[0]], c[1], c[2]])
                if len(elems) == 4:
                    break
            if r.random() < 0.15:
                elems = elems[:1]           # a one-element array, indexed by a zero-width value
            if len(elems) == 1:
                t = ["array", elems, ["const", 0, 0, False]]
                maxw = shape_of(elems[0], self.sigs)[0]
                if r.random() < 0.5 and maxw >= 1:
                    a = r.randrange(0, maxw)
                    t = ["slice", t, a, r.randint(a + 1, maxw)]
            elif len(elems) in (2, 4) or len(elems) == 3:
                if len(elems) == 3:
                    elems = elems[:2]
                r.shuffle(elems)
                kbits = 2 if len(elems) == 4 else 1
                idx = self.explicit_unsigned(readable, maxw=kbits)
                if shape_of(idx, self.sigs)[0] > kbits:
                    idx = ["slice", idx, 0, kbits]
                elif shape_of(idx, self.sigs)[0] < kbits:
                    # (an index too narrow to reach every element also narrows the proxy: keep it exactly kbits wide)
                    idx = ["cat", [idx, ["const", 0, kbits - shape_of(idx, self.sigs)[0], False]]]
                t = ["array", elems, idx]
                maxw = max(shape_of(e, self.sigs)[0] for e in elems)
                if r.random() < 0.6:
                    a = r.randrange(0, maxw)
                    t = ["slice", t, a, r.randint(a + 1, maxw)]
            else:
                t = base
        elif k < 0.94:
            # array of same-shaped whole signals with the same owner
            sh = (self.sigs[si]["width"], self.sigs[si]["signed"])
            peers = [c[0] for c in all_owned if c[1] == 0 and c[2] == self.sigs[c[0]]["width"]
                     and (self.sigs[c[0]]["width"], self.sigs[c[0]]["signed"]) == sh]
            peers = sorted(set(peers))
            if whole and len(peers) >= 2:
                elems = peers[:4] if len(peers) >= 4 else peers[:2]
                kbits = 2 if len(elems) == 4 else 1
                idx = self.explicit_unsigned(readable, maxw=kbits)
                iw, _ = shape_of(idx, self.sigs)
                if iw > kbits:
                    idx = ["slice", idx, 0, kbits]
                t = ["array", [["sig", e] for e in elems], idx]
            else:
                t = base
        else:
            t = base
        if r.random() < 0.12 and shape_of(t, self.sigs)[0] > 0 and t[0] != "array":
            t = [r.choice(["as_signed", "as_unsigned"]), t]
        return t


def gen_program(rng, opts=None):
    """opts: max_domains, allow_async, allow_resetless_domain, max_modules, wrappers, prints, fsm, max_stmts, depth"""
    o = {"max_domains": 2, "allow_async": True, "allow_resetless_domain": True, "max_modules": 3, "wrappers": False,
         "prints": False, "fsm": True, "max_stmts": 10, "depth": 2, "zero_width": True, "asserts": False}
    o.update(opts or {})
    g = _Gen(rng, o)
    r = rng
    nd = r.randint(1, o["max_domains"])
    domains = []
    for i in range(nd):
        rl = o["allow_resetless_domain"] and r.random() < 0.2
        domains.append({"name": "d%d" % i, "edge": r.choice(["pos", "pos", "neg"]),
                        "async_reset": bool(o["allow_async"] and not rl and r.random() < 0.3), "reset_less": rl})
    o["_rl_domains"] = {d["name"] for d in domains if d["reset_less"]}
    names = ["a", "b", "c", "x", "y", "a", "q", "s"]
    sigs = g.sigs
    n_in = r.randint(2, 4)
    n_drv = r.randint(3, 7)
    for i in range(n_in):
        w = r.choice([0, 1, 2, 3, 4, 6, 8]) if (o["zero_width"] and r.random() < 0.15) else r.choice([1, 2, 3, 4, 6, 8])
        sigs.append({"name": r.choice(names), "width": w, "signed": w > 0 and r.random() < 0.35, "init": 0, "reset_less": False,
                     "role": "input"})
    for i in range(n_drv):
        w = r.choice([1, 2, 3, 4, 5, 8, 12])
        if o["zero_width"] and r.random() < 0.06:
            w = 0
        sigs.append({"name": r.choice(names), "width": w, "signed": w > 0 and r.random() < 0.35,
                     "init": r.randrange(1 << w) if r.random() < 0.6 else 0, "reset_less": r.random() < 0.25, "role": "driven"})
    # module tree
    nm = r.randint(1, o["max_modules"])
    mods = [{"name": "top", "stmts": [], "subs": [], "owns": [], "wrap": [], "stmt_domains": []}]
    for i in range(1, nm):
        m = {"name": r.choice([None, "u", "v", "u", "sub"]), "stmts": [], "subs": [], "owns": [], "wrap": [], "stmt_domains": []}
        parent = r.choice(mods)
        parent["subs"].append(m)
        mods.append(m)
    if o.get("derived_clocks") and r.random() < 0.25:
        # the clock of a further domain, "slow0", is a register / a combinational output of the program, assigned and read through
        # the late-bound ClockSignal("slow0") (a clock divider); nothing is clocked by it
        sigs.append({"name": "slow0_clk", "width": 1, "signed": False, "init": 0, "reset_less": False, "role": "driven",
                     "late": ["clk", "slow0"]})
    # ownership: every driven signal is split into 1..2 chunks, each owned by one (module, domain)
    drv = [i for i, s in enumerate(sigs) if s["role"] == "driven"]
    has_comb = {}
    for i in drv:
        w = sigs[i]["width"]
        cuts = [0, w]
        if w >= 2 and r.random() < 0.3:
            cuts = [0, r.randint(1, w - 1), w]
        for a, b in zip(cuts, cuts[1:]):
            d = "comb" if r.random() < 0.45 else r.choice(domains)["name"]
            mi = r.randrange(len(mods))
            mods[mi]["owns"].append([i, a, b, d])
            if d == "comb":
                has_comb[i] = True
    ctl = []
    # wrappers (C03)
    if o["wrappers"]:
        for m in mods:
            if r.random() < 0.5:
                for _ in range(r.randint(1, 3)):
                    kind = r.choice(["reset", "enable", "enable", "rename"])
                    if kind == "rename":
                        a, b = r.choice(domains)["name"], r.choice(domains)["name"]
                        if a != b:
                            m["wrap"].append(["rename", {a: b} if r.random() < 0.6 else {a: b, b: a}])
                    elif len(domains) >= 2 and r.random() < 0.3:
                        # one inserter controlling several domains at once (a dict with more than one entry)
                        pairs = []
                        for d in r.sample(domains, r.randint(2, len(domains))):
                            sigs.append({"name": "ctl", "width": 1, "signed": False, "init": 0, "reset_less": False, "role": "ctl"})
                            ctl.append(len(sigs) - 1)
                            pairs.append([d["name"], len(sigs) - 1])
                        m["wrap"].append([kind + "_multi", pairs])
                    else:
                        sigs.append({"name": "ctl", "width": 1, "signed": False, "init": 0, "reset_less": False, "role": "ctl"})
                        ctl.append(len(sigs) - 1)
                        m["wrap"].append([kind, r.choice(domains)["name"], len(sigs) - 1])
    if o.get("wide_controls", True):
        # an inserter's control may be any value: wider than one bit it is asserted when non-zero, as every condition of the language
        for ci in ctl:
            q = r.random()
            if q < 0.2:
                sigs[ci]["width"] = 2
            elif q < 0.3:
                sigs[ci]["signed"] = True          # signed(1): asserted when -1
    inputs = [i for i, s in enumerate(sigs) if s["role"] in ("input",)]

    def readable_for(targets_sig, dom):
        """signals the logic driving `targets_sig` in `dom` may read"""
        if dom != "comb":
            return list(range(len(sigs)))
        out = list(inputs) + ctl
        for j in drv:
            if j == targets_sig:
                continue
            if not has_comb.get(j) or j < targets_sig:
                out.append(j)
        return out

    emitted = []

    def gen_block(m, mi, depth, budget, in_fsm):
        stmts = []
        n = r.randint(1, 3)
        for _ in range(n):
            if budget[0] <= 0:
                break
            budget[0] -= 1
            k = r.random()
            owned = m["owns"]
            if not owned:
                break
            if depth <= 0 or k < 0.5:
                c = r.choice(owned)
                dom = c[3]
                same = [(x[0], x[1], x[2]) for x in owned if x[3] == dom]
                # comb logic may only read lower-ranked comb signals: use the most restrictive set over the chunks involved
                rd = readable_for(c[0], dom)
                t = g.target((c[0], c[1], c[2]), same, rd)
                if dom == "comb":
                    involved = _target_sigs(t)
                    rd = [x for x in rd if all(x in readable_for(s2, "comb") for s2 in involved)]
                    t = _restrict_target(t, rd, sigs)
                rhs = g.numeric(rd, o["depth"])
                if dom == "comb" and o.get("clock_reads") and r.random() < 0.2:
                    # late-bound ClockSignal()/ResetSignal() of a domain name, read by combinational logic
                    dn = r.choice(domains)["name"]
                    kinds = ["clk"] + (["rst"] if all(not d["reset_less"] for d in domains) else [])
                    rhs = [r.choice(["^", "+", "mux"]), [r.choice(kinds), dn], rhs] if r.random() < 0.7 else [r.choice(kinds), dn]
                    if rhs[0] == "mux":
                        rhs = ["mux", rhs[1], rhs[2], g.numeric(rd, 1)]
                stmts.append(["assign", dom, t, rhs])
                if dom not in m["stmt_domains"]:
                    m["stmt_domains"].append(dom)
                if in_fsm is None and t[0] in ("sig", "slice") and shape_of(t, sigs)[0] > 0 and "array" not in json_dumps(t):
                    emitted.append((t, dom))       # (a slice of an Array proxy may address no bit at all: nothing to conflict with)
                if in_fsm is None and emitted and o.get("refusals", True) and r.random() < 0.08:
                    # fault: a statement the DSL must refuse (same bits, another domain of this module), caught by the
                    # caller, in the middle of building the module; the design must be as if it had never been attempted
                    t0, d0 = r.choice(emitted)
                    others = [x for x in ["comb"] + [d["name"] for d in domains] if x != d0]
                    if t0[0] == "slice" and t0[1][0] == "sig" and r.random() < 0.5:
                        # the refused statement addresses the whole signal, of which only these bits are driven so far: the bits
                        # it would have been allowed to drive must stay free for their rightful driver
                        t0 = ["sig", t0[1][1]]
                    if others:
                        stmts.append(["refused", r.choice(others), t0])
            else:
                # conditions are read by every statement in the body, which may be combinational: keep them to inputs and
                # purely synchronous signals
                rd = list(inputs) + ctl + [j for j in drv if not has_comb.get(j)]
                if k < 0.72:
                    arms = []
                    for ai in range(r.randint(1, 3)):
                        n0 = len(emitted)
                        body = gen_block(m, mi, depth - 1, budget, in_fsm)
                        if ai > 0 and in_fsm is None and n0 and o.get("refusals", True) and r.random() < 0.25:
                            t0, d0 = r.choice(emitted[:n0])
                            others = [x for x in ["comb"] + [d["name"] for d in domains] if x != d0]
                            if others and r.random() < 0.5:
                                # a refused statement at the end of an Elif body, caught inside the body
                                body.append(["refused", r.choice(others), t0])
                            elif others:
                                # ... or caught *around* the whole `with m.Elif(...)`: the branch is then simply absent
                                body = [st for st in body if st[0] == "assign"][:2] + [["abort", r.choice(others), t0]]
                                del emitted[n0:]
                        arms.append([g.numeric(rd, 1), body])
                    els = gen_block(m, mi, depth - 1, budget, in_fsm) if r.random() < 0.5 else None
                    stmts.append(["if", arms, els])
                elif k < 0.9:
                    test = g.explicit(rd, 1)
                    w, s = shape_of(test, sigs)
                    cases = []
                    for _ in range(r.randint(1, 4)):
                        cases.append([g.patterns(w, s), gen_block(m, mi, depth - 1, budget, in_fsm)])
                    if r.random() < 0.5:
                        cases.append([None, gen_block(m, mi, depth - 1, budget, in_fsm)])
                        if r.random() < 0.15:
                            cases.append([g.patterns(w, s, 1), gen_block(m, mi, depth - 1, budget, in_fsm)])   # after default
                    stmts.append(["switch", test, cases])
                elif in_fsm is not None and r.random() < 0.8:
                    stmts.append(["next", in_fsm["id"], in_fsm["domain"], r.choice(in_fsm["names"])])
                elif o["prints"] and domains:
                    stmts.append(_gen_print(g, r, r.choice(domains)["name"], list(range(len(sigs))), o))
                    if stmts[-1][1] not in m["stmt_domains"]:
                        m["stmt_domains"].append(stmts[-1][1])
        return stmts

    for mi, m in enumerate(mods):
        budget = [o["max_stmts"]]
        del emitted[:]
        m["stmts"] = gen_block(m, mi, 2, budget, None)
        if o["fsm"] and r.random() < 0.4:
            fd = r.choice(domains)["name"]
            names_ = ["S%d" % k for k in range(r.randint(2, 4))]
            if r.random() < 0.3:
                # state keys may be any hashable object: integers (0 is falsy) in a shuffled order, or the empty string
                names_ = list(range(len(names_)))
                r.shuffle(names_)
            elif r.random() < 0.15:
                names_[r.randrange(1, len(names_))] = ""
            f = {"id": g.fsm_count, "name": r.choice(["fsm", "ctrl"]), "domain": fd, "names": names_,
                 "init": r.choice([None, None] + names_), "states": []}
            g.fsm_count += 1
            rd = list(inputs) + ctl + [j for j in drv if not has_comb.get(j)]
            def fsm_body(ff):
                body = []
                if m["owns"]:
                    body += gen_block(m, mi, 1, [3], ff)
                if r.random() < 0.8:
                    body.append(["if", [[g.numeric(rd, 1), [["next", ff["id"], ff["domain"], r.choice(ff["names"])]]]], None])
                if r.random() < 0.2:
                    body.append(["next", ff["id"], ff["domain"], r.choice(ff["names"])])
                return body
            nested_done = False
            for nme in names_:
                body = fsm_body(f)
                if not nested_done and r.random() < 0.15:
                    # an FSM inside a State of another FSM; its state names overlap the outer ones on purpose: every
                    # `m.next` belongs to the innermost enclosing FSM
                    nested_done = True
                    inner = {"id": g.fsm_count, "name": "inner", "domain": r.choice(domains)["name"],
                             "names": list(names_[:r.randint(2, len(names_))]), "init": None, "states": []}
                    g.fsm_count += 1
                    if inner["domain"] not in m["stmt_domains"]:
                        m["stmt_domains"].append(inner["domain"])
                    for inm in inner["names"]:
                        inner["states"].append([inm, fsm_body(inner)])
                    body.insert(r.randint(0, len(body)), ["fsm", inner])
                f["states"].append([nme, body])
            m["stmts"].insert(r.randint(0, len(m["stmts"])), ["fsm", f])
            if fd not in m["stmt_domains"]:
                m["stmt_domains"].append(fd)
        if o["prints"] and r.random() < 0.8:
            for _ in range(r.randint(1, 3)):
                dn = r.choice(domains)["name"]
                st = _gen_print(g, r, dn, list(range(len(sigs))), o)
                m["stmts"].insert(r.randint(0, len(m["stmts"])), st)
                if dn not in m["stmt_domains"]:
                    m["stmt_domains"].append(dn)
    rename_keys = {k_ for m in mods for w in m["wrap"] if w[0] == "rename" for k_ in w[1]}
    if o.get("shadows") and r.random() < 0.4 and len(rename_keys) < len(domains):
        # a module may define a clock domain of its own under a name that is also defined further up: inside that module (and
        # below it) the name means the module's own domain, everywhere else the outer one.  The shadowing domain gets its own
        # clock / reset lines (domain entry "<name>@<k>", never used as a name in statements)
        k = 0
        # (a domain that some DomainRenamer of the program renames *from* is never shadowed: what a renamer does to a domain
        # defined inside the design it wraps is not specified; one it renames *to* may be - the target is the domain of that name
        # outside the wrapped design, whatever is defined inside)
        base = [d for d in domains if d["name"] not in rename_keys]
        for m in mods:
            if k < 2 and r.random() < 0.35:
                b = r.choice(base)
                rl = b["reset_less"]
                domains.append({"name": "%s@%d" % (b["name"], k), "edge": r.choice(["pos", "neg"]),
                                "async_reset": bool(o["allow_async"] and not rl and r.random() < 0.3), "reset_less": rl,
                                "shadow_of": b["name"]})
                m["shadow"] = {b["name"]: "%s@%d" % (b["name"], k)}
                k += 1
    if o.get("struct_signals", True):
        # some unsigned signals are declared with an aggregate shape whose first member has a *computed* display format (a
        # Gray-coded count shown decoded): the program uses the underlying Signal as before; the backend additionally emits the
        # decoded member in every module that names the signal
        for sg in sigs:
            if not sg["signed"] and sg["width"] >= 2 and not sg.get("late") and r.random() < 0.12:
                sg["struct"] = r.randint(1, sg["width"] - 1)
    out = {"domains": domains, "signals": sigs, "top": mods[0]}
    if o.get("held_proxies", True) and r.random() < 0.15:
        out["held_proxies"] = True
    return out


FORMAT_TYPES = ["", "d", "b", "o", "x", "X", "c", "s"]


def gen_spec(r, ty=None):
    """format spec from the accepted grammar: [[fill]align][sign][#][0][width][_][type]"""
    if ty is None:
        ty = r.choice(FORMAT_TYPES)
    if ty in ("c", "s"):
        out = ""
        if r.random() < 0.5:
            out += r.choice(["", "", "*", ".", " ", "0"]) + r.choice(["<", ">"])
            out += str(r.randint(1, 9))
        elif r.random() < 0.3:
            out += str(r.randint(1, 9))
        return out + ty
    out = ""
    if r.random() < 0.4:
        out += r.choice(["", "", "*", "_", " ", "z", "0"]) + r.choice(["<", ">", "="])
    if r.random() < 0.4:
        out += r.choice(["+", "-", " "])
    if r.random() < 0.3:
        out += "#"
    if r.random() < 0.3:
        out += "0"
    if r.random() < 0.6:
        out += str(r.randint(1, 14))
    if r.random() < 0.25:
        out += "_"
    return out + ty


def _gen_print(g, r, dom, readable, o):
    sigs = g.sigs
    chunks = []
    for _ in range(r.randint(1, 3)):
        if r.random() < 0.5:
            chunks.append(r.choice(["v=", " ", "{x}", "}{", "a:", "%d", "\\n"]))
        e = g.explicit(readable, 1)
        w, s = shape_of(e, sigs)
        spec = gen_spec(r)
        if o.get("format_extras", True) and r.random() < 0.12:
            # a comparison, printed as the one-bit number it is ("1" / "0" with the empty specification)
            e = r.choice([["!=", e, ["const", r.randrange(8), 3, False]], ["<", e, ["const", 13, 5, False]]])
            w, s = 1, False
            spec = r.choice(["", "", "d", ">3", "b"])
        if spec.endswith("c"):
            # a valid code point: 7 bits, unsigned
            wide = ["cat", [e, ["const", 0x41, 7, False]]]
            e = ["slice", wide, 0, 7]
        elif spec.endswith("s"):
            # ASCII, never NUL: each byte = 6 data bits, then 1, then 0; optionally NUL padding above (trailing)
            wide = ["cat", [e, ["const", 0x2a5, 12, False]]]
            ww = shape_of(wide, sigs)[0]
            parts = []
            for k in range(r.randint(1, 3)):
                if 6 * k + 6 <= ww:
                    parts += [["slice", wide, 6 * k, 6 * k + 6], ["const", 1, 1, False], ["const", 0, 1, False]]
            if r.random() < 0.4:
                parts.append(["const", 0, 8 * r.randint(1, 2), False])
            e = ["cat", parts]
            if o.get("format_extras", True) and r.random() < 0.2:
                # the whole text is a constant
                text = "".join(r.choice("abcXYZ019 _") for _ in range(r.randint(1, 4)))
                e = ["const", int.from_bytes(text.encode(), "little"), 8 * len(text) + 8 * r.randint(0, 1), False]
        if not spec.endswith(("c", "s")) and r.random() < 0.2:
            # the width given by a nested replacement field (automatic numbering: the value first, then the nested argument)
            ty = spec[-1] if spec and spec[-1] in "dboxX" else ""
            if r.random() < 0.3:
                # a brace as the fill character (only expressible through a nested field)
                chunks.append([e, "{}" + r.choice(["<", ">", "="]) + str(r.randint(2, 9)) + ty, [r.choice(["{", "}"])]])
            else:
                chunks.append([e, r.choice(["", "0", ">", "*<", "+"]) + "{}" + ty, [r.randint(1, 14)]])
        else:
            chunks.append([e, spec])
        if o.get("format_extras", True) and not spec.endswith(("c", "s")):
            q = r.random()
            if q < 0.12:
                # the value wrapped in a value-castable whose shape keeps the documented default ShapeCastable.format()
                ch = chunks[-1]
                chunks[-1] = [ch[0], ch[1], ch[2] if len(ch) > 2 else [], {"castable": True}]
            elif q < 0.2:
                # a conversion flag of the format-string syntax (!s, !r, !a) and no specification: for an integer Python prints
                # what "{}" prints; Format may refuse the flag when the statement is built, or must print that
                chunks[-1] = [e, "", [], {"conv": r.choice(["s", "r", "a"])}]
    if o.get("format_extras", True) and dom not in o.get("_rl_domains", ()) and r.random() < 0.12:
        # the domain's own reset, late bound, as a printed value
        chunks.append([["rst", dom], r.choice(["", "b", "d"])])
    if r.random() < 0.3:
        chunks.append(r.choice(["!", " end", ""]))
    if o.get("asserts") and r.random() < 0.35:
        # mostly-true conditions, so that runs make progress before the first failure
        a = g.explicit(readable, 1)
        cond = r.choice([["!=", a, ["const", r.randrange(8), 3, False]], g.numeric(readable, 1), ["<", a, ["const", 13, 5, False]]])
        return ["assert", dom, cond, chunks if r.random() < 0.7 else None, r.choice(["assert", "assume"])]
    if r.random() < 0.3:
        # several arguments, like Python's print(): a Format, plain strings (possibly empty), bare values; sep / end
        args = [["fmt", chunks]]
        for _ in range(r.randint(0, 2)):
            q = r.random()
            a = ["str", r.choice(["", "", "x", "a b"])] if q < 0.5 else ["val", g.explicit(readable, 1)]
            args.insert(r.randint(0, len(args)), a)
        return ["print", dom, chunks, {"args": args, "sep": r.choice([" ", " ", "", "|", ", "]), "end": r.choice(["\n", "\n", "", ";\n"])}]
    return ["print", dom, chunks]


def _target_sigs(t):
    op = t[0]
    if op == "sig":
        return [t[1]]
    if op in ("slice", "as_signed", "as_unsigned", "part"):
        return _target_sigs(t[1])
    if op == "cat":
        out = []
        for p in t[1]:
            out += _target_sigs(p)
        return out
    if op == "array":
        out = []
        for p in t[1]:
            out += _target_sigs(p)
        return out
    return []


def _expr_sigs(e):
    out = []
    if isinstance(e, list):
        if e and e[0] == "sig":
            return [e[1]]
        if e and e[0] == "const":
            return []
        for x in (e[1:] if (e and isinstance(e[0], str)) else e):      # (a bare list of sub-expressions has no operator name)
            if isinstance(x, list):
                out += _expr_sigs(x)
    return out


def _restrict_target(t, readable, sigs):
    """offset / index expressions inside a combinational target must be readable too; replace them by constants if not"""
    if t[0] == "part":
        if any(s not in readable for s in _expr_sigs(t[2])):
            return ["part", t[1], ["const", 1, 2, False], t[3], t[4]]
    if t[0] == "array":
        if any(s not in readable for s in _expr_sigs(t[2])):
            return ["array", t[1], ["const", 0, max(1, (len(t[1]) - 1).bit_length()), False]]
    if t[0] in ("as_signed", "as_unsigned"):
        return [t[0], _restrict_target(t[1], readable, sigs)]
    if t[0] == "slice" and t[1][0] == "array":
        return ["slice", _restrict_target(t[1], readable, sigs), t[2], t[3]]
    return t


# ======================================================================================================================
# builder
class Built:
    pass


def _gray_struct(k, rest):
    """StructLayout({"count": Gray(k), "rest": rest}): `count` is displayed decoded (ShapeCastable.format() returning a computed
    expression, the documented extension point)."""
    from amaranth.hdl import ShapeCastable, Value, Const, Format, unsigned
    from amaranth.lib import data

    class Gray(ShapeCastable):
        def __init__(self, width):
            self.width = width

        def as_shape(self):
            return unsigned(self.width)

        def const(self, init):
            return Const(init or 0, self.width)

        def from_bits(self, bits):
            return bits

        def __call__(self, value):
            return value

        def format(self, obj, spec):
            value = Value.cast(obj)
            binary = value
            for shift in range(1, self.width):
                binary = binary ^ (value >> shift)
            return Format("{:" + spec + "}", binary[:self.width])

    return data.StructLayout({"count": Gray(k), "rest": rest})


def _default_format_view(value):
    """`value` wrapped in a ValueCastable whose shape is a ShapeCastable that does not override format()"""
    from amaranth.hdl import ShapeCastable, ValueCastable, Value, Const

    class Plain(ShapeCastable):
        def __init__(self, shape):
            self._shape = shape

        def as_shape(self):
            return self._shape

        def const(self, init):
            return Const(init or 0, self._shape)

        def __call__(self, target):
            return PlainView(target)

        def from_bits(self, raw):
            return raw

    class PlainView(ValueCastable):
        def __init__(self, target):
            self._target = Value.cast(target)

        def shape(self):
            return Plain(self._target.shape())

        def as_value(self):
            return self._target

    return PlainView(value)


def build(prog):
    """-> Built with .top (Elaboratable), .sigs (list of Signal), .ongoing {(fsm id, state): Signal}"""
    from amaranth.hdl import (Module, Signal, Const, Cat, Mux, Array, signed, unsigned, Elaboratable, ResetInserter,
                              EnableInserter, DomainRenamer, Print, Assert, Assume, Format, ClockSignal, ResetSignal)
    from amaranth import hdl as _hdl
    AmaranthSyntaxError = getattr(_hdl, "SyntaxError", SyntaxError)     # amaranth raises its own SyntaxError subclass
    B = Built()
    B.sigs = [Signal(signed(s["width"]) if s["signed"] else unsigned(s["width"]), name=s["name"],
                     init=(s["init"] - (1 << s["width"]) if (s["signed"] and s["width"] and s["init"] >> (s["width"] - 1))
                           else s["init"]),
                     reset_less=s["reset_less"]) for s in prog["signals"]]
    for i_, s_ in enumerate(prog["signals"]):
        if s_.get("struct"):
            k_ = s_["struct"]
            view_ = Signal(_gray_struct(k_, s_["width"] - k_), name=s_["name"], reset_less=s_["reset_less"],
                           init={"count": s_["init"] & ((1 << k_) - 1), "rest": s_["init"] >> k_})
            B.sigs[i_] = view_.as_value()
            assert B.sigs[i_].init == s_["init"] and len(B.sigs[i_]) == s_["width"]
    B.ongoing = {}
    B.refused_conversions = 0
    from amaranth.hdl import ClockDomain
    B.shadow_cds = {d["name"]: ClockDomain(d["shadow_of"], clk_edge=d["edge"], async_reset=d["async_reset"], reset_less=d["reset_less"])
                    for d in prog["domains"] if d.get("shadow_of")}
    B.late_cds = {}
    for i_, s_ in enumerate(prog["signals"]):
        if s_.get("late"):
            cd_ = ClockDomain(s_["late"][1])
            B.late_cds[s_["late"][1]] = cd_
            B.sigs[i_] = cd_.clk
    sigs = B.sigs

    def ex(e):
        op = e[0]
        if op == "sig":
            if prog["signals"][e[1]].get("late"):
                return ClockSignal(prog["signals"][e[1]]["late"][1])       # late bound: resolved when the design is prepared
            return sigs[e[1]]
        if op == "const":
            return Const(e[1], signed(e[2]) if e[3] else unsigned(e[2]))
        if op == "clk":
            return ClockSignal(e[1])
        if op == "rst":
            return ResetSignal(e[1])
        if op in ("+", "-", "*", "//", "%", "&", "|", "^", "==", "!=", "<", "<=", ">", ">=", "<<", ">>"):
            a, b = ex(e[1]), ex(e[2])
            return {"+": lambda: a + b, "-": lambda: a - b, "*": lambda: a * b, "//": lambda: a // b, "%": lambda: a % b,
                    "&": lambda: a & b, "|": lambda: a | b, "^": lambda: a ^ b, "==": lambda: a == b, "!=": lambda: a != b,
                    "<": lambda: a < b, "<=": lambda: a <= b, ">": lambda: a > b, ">=": lambda: a >= b,
                    "<<": lambda: a << b, ">>": lambda: a >> b}[op]()
        if op == "neg":
            return -ex(e[1])
        if op == "abs":
            return abs(ex(e[1]))
        if op == "bool":
            return ex(e[1]).bool()
        if op == "any":
            return ex(e[1]).any()
        if op == "all":
            return ex(e[1]).all()
        if op == "xor":
            return ex(e[1]).xor()
        if op == "mux":
            return Mux(ex(e[1]), ex(e[2]), ex(e[3]))
        if op == "~":
            return ~ex(e[1])
        if op == "slice":
            if e[1][0] == "array":
                from amaranth.hdl import Value
                return Value.cast(ex(e[1]))[e[2]:e[3]]      # a slice of the proxy as a whole (not of each element)
            return ex(e[1])[e[2]:e[3]]
        if op == "cat":
            return Cat(*[ex(p) for p in e[1]])
        if op == "as_signed":
            return ex(e[1]).as_signed()
        if op == "as_unsigned":
            return ex(e[1]).as_unsigned()
        if op == "part":
            if e[4] == 1:
                return ex(e[1]).bit_select(ex(e[2]), e[3])
            return ex(e[1]).word_select(ex(e[2]), e[3])
        if op == "matches":
            return ex(e[1]).matches(*e[2])
        if op == "array":
            return Array([ex(p) for p in e[1]])[ex(e[2])]
        raise AssertionError(op)

    def fmt(chunks):
        s = ""
        args = []
        for ch in chunks:
            if isinstance(ch, str):
                s += ch.replace("{", "{{").replace("}", "}}")
            else:
                opt = ch[3] if len(ch) > 3 else {}
                if opt.get("conv"):
                    try:
                        args.append(Format("{!" + opt["conv"] + "}", ex(ch[0])))
                    except (ValueError, TypeError):
                        args.append(ex(ch[0]))          # refused when the statement is built: fine
                        B.refused_conversions += 1
                    s += "{}"
                    continue
                s += "{:" + ch[1] + "}" if ch[1] else "{}"
                args.append(_default_format_view(ex(ch[0])) if opt.get("castable") else ex(ch[0]))
                if len(ch) > 2:
                    args.extend(ch[2])
        return Format(s, *args)

    held_map = {}

    def emit(m, stmts, fsm_ctx):
        for st in stmts:
            k = st[0]
            if k == "assign":
                held = held_map.get(id(m))
                if held is not None:
                    # the domain proxy is fetched once (at whatever nesting depth it is first needed) and kept in a variable:
                    # `d = m.d.sync` ... `d += stmt` must add the statement where the program is *now*
                    dproxy = held.get(st[1])
                    if dproxy is None:
                        dproxy = held[st[1]] = m.d[st[1]]
                    dproxy += ex(st[2]).eq(ex(st[3]))
                    continue
                m.d[st[1]] += ex(st[2]).eq(ex(st[3]))
            elif k == "if":
                first = True
                for cond, body in st[1]:
                    if body and body[-1][0] == "abort":
                        try:
                            with m.Elif(ex(cond)):
                                emit(m, body[:-1], fsm_ctx)
                                m.d[body[-1][1]] += ex(body[-1][2]).eq(0)
                        except AmaranthSyntaxError:
                            continue
                        raise RuntimeError("progen: a statement driving already-driven bits from another domain was accepted")
                    with (m.If(ex(cond)) if first else m.Elif(ex(cond))):
                        emit(m, body, fsm_ctx)
                    first = False
                if st[2] is not None:
                    with m.Else():
                        emit(m, st[2], fsm_ctx)
            elif k == "switch":
                with m.Switch(ex(st[1])):
                    for pats, body in st[2]:
                        if pats is None:
                            with m.Default():
                                emit(m, body, fsm_ctx)
                        else:
                            with m.Case(*pats):
                                emit(m, body, fsm_ctx)
            elif k == "fsm":
                f = st[1]
                kw = {"domain": f["domain"], "name": f["name"]}
                if f["init"] is not None:
                    kw["init"] = f["init"]
                with m.FSM(**kw) as fsm:
                    for name, body in f["states"]:
                        with m.State(name):
                            emit(m, body, f)
                    for name in f["names"]:
                        B.ongoing[(f["id"], name)] = fsm.ongoing(name)
            elif k == "next":
                m.next = st[3]
            elif k == "refused":
                try:
                    m.d[st[1]] += ex(st[2]).eq(0)
                except AmaranthSyntaxError:
                    pass
                else:
                    raise RuntimeError("progen: a statement driving already-driven bits from another domain was accepted")
            elif k == "print":
                if len(st) > 3:
                    pa = [fmt(a[1]) if a[0] == "fmt" else (a[1] if a[0] == "str" else ex(a[1])) for a in st[3]["args"]]
                    m.d[st[1]] += Print(*pa, sep=st[3]["sep"], end=st[3]["end"])
                else:
                    m.d[st[1]] += Print(fmt(st[2]))
            elif k == "assert":
                cls = Assert if st[4] == "assert" else Assume
                m.d[st[1]] += cls(ex(st[2]), fmt(st[3])) if st[3] is not None else cls(ex(st[2]))
            else:
                raise AssertionError(k)

    class Mod(Elaboratable):
        def __init__(self, desc):
            self.desc = desc

        def elaborate(self, platform):
            m = Module()
            for key in (self.desc.get("shadow") or {}).values():
                m.domains += B.shadow_cds[key]
            if self.desc is prog["top"]:
                for cd_ in B.late_cds.values():
                    m.domains += cd_
            if prog.get("held_proxies"):
                held_map[id(m)] = {}
            emit(m, self.desc["stmts"], None)
            held_map.pop(id(m), None)
            for i, sub in enumerate(self.desc["subs"]):
                e = wrap(sub)
                if sub["name"] is None:
                    m.submodules += e
                else:
                    nm = sub["name"]
                    k = 0
                    while nm in m._named_submodules:
                        k += 1
                        nm = "%s_%d" % (sub["name"], k)
                    m.submodules[nm] = e
            return m

    def wrap(desc):
        e = Mod(desc)
        for w in desc.get("wrap", []):
            if w[0] == "reset":
                e = ResetInserter({w[1]: sigs[w[2]]})(e)
            elif w[0] == "enable":
                e = EnableInserter({w[1]: sigs[w[2]]})(e)
            elif w[0] == "reset_multi":
                e = ResetInserter({d: sigs[c] for d, c in w[1]})(e)
            elif w[0] == "enable_multi":
                e = EnableInserter({d: sigs[c] for d, c in w[1]})(e)
            else:
                dmap = dict(w[1])
                e = DomainRenamer(dmap)(e)
                dmap.clear()          # (the caller's dictionary is the caller's: what happens to it afterwards is of no concern)
        return e

    B.top = wrap(prog["top"])
    B.ex = ex          # expression / target builder, for structured testbench writes
    return B
