"""An interpreter for the RTLIL subset that amaranth.back.rtlil emits (DESIGN.md Appendix A).

No Yosys exists offline; this evaluator is the trusted base of C04 and of the RTLIL clause of C11.  It is written from the
published cell descriptions.  Values are (val, xmask) pairs over little-endian bit vectors; bits whose xmask bit is set are
*undefined* and are never compared.  Anything outside the subset raises Unreadable (reported as a violation: the
equivalence cannot hold for a text that cannot be read).
"""
import re

__all__ = ["parse", "Design", "Unreadable", "CombLoop"]


class Unreadable(Exception):
    pass


class CombLoop(Exception):
    pass


# ======================================================================================================================
# parsing
class Mod:
    def __init__(self, name):
        self.name = name
        self.wires = {}      # name -> dict(width, kind, port_id, signed, init)
        self.cells = []      # dict(type, name, params, conns)
        self.procs = []      # list of statement lists
        self.connects = []   # (lhs spec, rhs spec)
        self.mems = {}       # name -> (width, size)
        self.attrs = {}


def _tokens(line):
    # strings may contain spaces
    out = []
    i, n = 0, len(line)
    while i < n:
        c = line[i]
        if c.isspace():
            i += 1
        elif c == '"':
            j = i + 1
            buf = []
            while j < n and line[j] != '"':
                if line[j] == "\\" and j + 1 < n:
                    buf.append(line[j:j + 2])
                    j += 2
                else:
                    buf.append(line[j])
                    j += 1
            out.append('"' + "".join(buf) + '"')
            i = j + 1
        else:
            j = i
            while j < n and not line[j].isspace():
                j += 1
            out.append(line[i:j])
            i = j
    return out


_CONST = re.compile(r"^(\d+)'([01xz-]*)$")


def parse_const(tok):
    """-> (value, xmask, width) or None"""
    m = _CONST.match(tok)
    if m:
        w = int(m.group(1))
        bits = m.group(2)
        if w == 0:
            bits = ""           # the backend writes a zero-width constant as 0'0; Yosys truncates to the stated width
        if len(bits) != w:
            raise Unreadable("constant %r: width mismatch" % tok)
        v = x = 0
        for k, ch in enumerate(reversed(bits)):
            if ch == "1":
                v |= 1 << k
            elif ch != "0":
                x |= 1 << k
        return v, x, w
    if re.match(r"^-?\d+$", tok):
        v = int(tok)
        return v & 0xffffffff, 0, 32
    return None


def parse_sigspec(toks, pos):
    """-> (spec, newpos); spec = list of chunks LSB-first: ("c", val, xm, width) | ("w", name, lo, width)"""
    t = toks[pos]
    if t == "{":
        pos += 1
        parts = []
        while toks[pos] != "}":
            s, pos = parse_sigspec(toks, pos)
            parts.append(s)
        pos += 1
        spec = []
        for s in reversed(parts):      # textual order is MSB first
            spec += s
        return spec, pos
    c = parse_const(t)
    if c is not None:
        return [("c", c[0], c[1], c[2])], pos + 1
    if t[0] not in "\\$":
        raise Unreadable("bad sigspec token %r" % t)
    name = t
    pos += 1
    if pos < len(toks) and toks[pos].startswith("[") and toks[pos].endswith("]"):
        rng = toks[pos][1:-1]
        pos += 1
        if ":" in rng:
            hi, lo = rng.split(":")
            hi, lo = int(hi), int(lo)
        else:
            hi = lo = int(rng)
        return [("w", name, lo, hi - lo + 1)], pos
    return [("w", name, 0, None)], pos


def parse(text):
    mods = {}
    top = None
    cur = None
    pend_attrs = {}
    lines = text.splitlines()
    i = 0

    def parse_proc_body(i, depth_end="end"):
        """statements until matching 'end' (of process) -> (stmts, next line index)"""
        stmts = []
        while True:
            toks = _tokens(lines[i])
            if not toks or toks[0] == "attribute":
                i += 1
                continue
            if toks[0] == "assign":
                lhs, p = parse_sigspec(toks, 1)
                rhs, p = parse_sigspec(toks, p)
                stmts.append(("assign", lhs, rhs))
                i += 1
            elif toks[0] == "switch":
                sel, p = parse_sigspec(toks, 1) if toks[1:] != ["{}"] and toks[1] != "{}" else ([], 2)
                i += 1
                cases = []
                while True:
                    t2 = _tokens(lines[i])
                    if not t2 or t2[0] == "attribute":
                        i += 1
                        continue
                    if t2[0] == "case":
                        pats = []
                        for pt in t2[1:]:
                            pt = pt.rstrip(",")
                            if pt:
                                m = _CONST.match(pt)
                                if not m:
                                    raise Unreadable("bad case pattern %r" % pt)
                                pats.append(m.group(2))
                        i += 1
                        body, i = parse_case_body(i)
                        cases.append((pats, body))
                    elif t2[0] == "end":
                        i += 1
                        break
                    else:
                        raise Unreadable("unexpected %r in switch" % lines[i])
                stmts.append(("switch", sel, cases))
            elif toks[0] in ("end", "case"):
                # RTLIL case-rule semantics: a body is a list of actions plus a list of switches, and all actions take effect
                # before any switch, whatever their order in the text (an assign meant to override a preceding switch must
                # itself be wrapped in `switch {} case`, as the backend does)
                stmts = [s for s in stmts if s[0] == "assign"] + [s for s in stmts if s[0] == "switch"]
                return stmts, i
            elif toks[0] == "sync":
                raise Unreadable("process sync rules are not part of the emitted subset")
            else:
                raise Unreadable("unexpected %r in process" % lines[i])

    def parse_case_body(i):
        return parse_proc_body(i)

    while i < len(lines):
        toks = _tokens(lines[i])
        i += 1
        if not toks or toks[0].startswith("#"):
            continue
        k = toks[0]
        if k == "attribute":
            pend_attrs[toks[1]] = toks[2] if len(toks) > 2 else None
        elif k == "module":
            cur = Mod(toks[1])
            cur.attrs = pend_attrs
            if "\\top" in pend_attrs:
                top = toks[1]
            pend_attrs = {}
            if toks[1] in mods:
                raise Unreadable("duplicate module %s" % toks[1])
            mods[toks[1]] = cur
        elif k == "end":
            cur = None
            pend_attrs = {}
        elif k == "wire":
            w = {"width": 1, "kind": None, "port_id": None, "signed": False, "init": None}
            p = 1
            while p < len(toks) - 1:
                if toks[p] == "width":
                    w["width"] = int(toks[p + 1])
                    p += 2
                elif toks[p] in ("input", "output", "inout"):
                    w["kind"] = toks[p]
                    w["port_id"] = int(toks[p + 1])
                    p += 2
                elif toks[p] == "signed":
                    w["signed"] = True
                    p += 1
                else:
                    raise Unreadable("bad wire option %r" % toks[p])
            name = toks[-1]
            if name in cur.wires:
                raise Unreadable("duplicate wire %s in %s" % (name, cur.name))
            if "\\init" in pend_attrs:
                c = parse_const(pend_attrs["\\init"])
                if c is None:
                    raise Unreadable("bad init")
                w["init"] = c
            cur.wires[name] = w
            pend_attrs = {}
        elif k == "memory":
            width = size = None
            p = 1
            while p < len(toks) - 1:
                if toks[p] == "width":
                    width = int(toks[p + 1])
                elif toks[p] == "size":
                    size = int(toks[p + 1])
                p += 2
            cur.mems[toks[-1]] = (width, size)
            pend_attrs = {}
        elif k == "cell":
            cell = {"type": toks[1], "name": toks[2], "params": {}, "conns": {}}
            pend_attrs = {}
            while True:
                t2 = _tokens(lines[i])
                i += 1
                if not t2:
                    continue
                if t2[0] == "parameter":
                    q = 1
                    if t2[q] in ("signed", "real"):
                        q += 1
                    cell["params"][t2[q]] = t2[q + 1]
                elif t2[0] == "connect":
                    spec, _ = parse_sigspec(t2, 2) if len(t2) > 2 and not (t2[2] == "{" and t2[3] == "}") else ([], 0)
                    cell["conns"][t2[1]] = spec
                elif t2[0] == "end":
                    break
                elif t2[0] == "attribute":
                    pass
                else:
                    raise Unreadable("unexpected %r in cell" % t2)
            cur.cells.append(cell)
        elif k == "process":
            pend_attrs = {}
            body, i = parse_proc_body(i)
            if _tokens(lines[i])[0] != "end":
                raise Unreadable("process not terminated")
            i += 1
            cur.procs.append(body)
        elif k == "connect":
            lhs, p = parse_sigspec(toks, 1)
            rhs, p = parse_sigspec(toks, p)
            cur.connects.append((lhs, rhs))
        elif k == "autoidx":
            pass
        else:
            raise Unreadable("unexpected line %r" % lines[i - 1])
    if top is None:
        raise Unreadable("no top module")
    return mods, top


# ======================================================================================================================
# flattening and evaluation
def _pint(tok):
    c = parse_const(tok)
    if c is None:
        raise Unreadable("bad parameter %r" % tok)
    return c[0]


COMB_CELLS = {"$not", "$neg", "$reduce_and", "$reduce_or", "$reduce_xor", "$reduce_bool", "$add", "$sub", "$mul", "$divfloor",
              "$modfloor", "$shl", "$shr", "$sshr", "$shift", "$and", "$or", "$xor", "$eq", "$ne", "$lt", "$le", "$gt", "$ge", "$mux"}


class Design:
    def __init__(self, text, shift_signed_fill="zero"):
        # "$shift" with A_SIGNED: what is shifted in from beyond the extension of A to max(A_WIDTH, Y_WIDTH).  "zero" is the
        # published semantics (simlib: `$signed(A) >> B`, a logical shift of the extended operand); "undef" marks those bits
        # undefined (used to attribute a mismatch to exactly this construct)
        self.shift_signed_fill = shift_signed_fill
        self.mods, self.topname = parse(text)
        self.width = {}     # flat wire name -> width
        self.val = {}
        self.xm = {}
        self.items = []     # combinational items: (kind, payload, reads set, writes set)
        self.ffs = []
        self.memwr = []
        self.memrd_sync = []
        self.mem = {}       # flat memory name -> {"width","size","rows": [[val, xm]...]}
        self.top_ports = {}
        self._instantiate(self.topname, "")
        top = self.mods[self.topname]
        for name, w in top.wires.items():
            if w["kind"]:
                self.top_ports[name.lstrip("\\")] = (name, w["kind"], w["width"], w["signed"])
        for name in self.width:
            self.val.setdefault(name, 0)
            self.xm.setdefault(name, (1 << self.width[name]) - 1)
        for name, (wname, kind, width, _s) in self.top_ports.items():
            if kind == "input":
                self.val[wname] = 0
                self.xm[wname] = 0
        # flip-flop outputs must have a defined initial value (the backend attaches \init to the wire a flip-flop drives)
        self.ff_without_init = []
        for (t, P, conns) in self.ffs:
            v, x, w = self.read(conns["Q"])
            if x:
                self.ff_without_init.append((conns["Q"][0][1] if conns["Q"] and conns["Q"][0][0] == "w" else "?", x))
        self._order()
        self._check_drivers()
        self.settle()
        self._snap = self.snapshot()

    # ------------------------------------------------------------------------------------------------ flatten
    def _flat(self, prefix, spec, mod):
        out = []
        for ch in spec:
            if ch[0] == "c":
                out.append(ch)
            else:
                _, name, lo, width = ch
                if name not in mod.wires:
                    raise Unreadable("reference to undeclared wire %s in %s" % (name, mod.name))
                ww = mod.wires[name]["width"]
                if width is None:
                    width = ww
                if lo < 0 or lo + width > ww:
                    raise Unreadable("slice [%d:%d] outside wire %s of width %d" % (lo + width - 1, lo, name, ww))
                out.append(("w", prefix + name, lo, width))
        return out

    @staticmethod
    def spec_width(spec):
        return sum(ch[3] for ch in spec)

    def _instantiate(self, modname, prefix):
        if modname not in self.mods:
            raise Unreadable("instantiated module %s does not exist" % modname)
        mod = self.mods[modname]
        for name, w in mod.wires.items():
            self.width[prefix + name] = w["width"]
            if w["init"] is not None:
                self.val[prefix + name] = w["init"][0]
                self.xm[prefix + name] = w["init"][1]
        for name, (width, size) in mod.mems.items():
            self.mem[prefix + name] = {"width": width, "size": size, "rows": [[0, (1 << width) - 1] for _ in range(size)]}
        for lhs, rhs in mod.connects:
            l, r = self._flat(prefix, lhs, mod), self._flat(prefix, rhs, mod)
            if self.spec_width(l) != self.spec_width(r):
                raise Unreadable("connect width mismatch in %s" % modname)
            self._add_item("connect", (l, r), r, l)
        for body in mod.procs:
            fb = self._flat_stmts(prefix, body, mod)
            reads, writes = [], []
            self._proc_rw(fb, reads, writes)
            self._add_item("proc", fb, reads, writes)
        for cell in mod.cells:
            t = cell["type"]
            conns = {(k.lstrip("\\") if t.startswith("$") else k): self._flat(prefix, v, mod) for k, v in cell["conns"].items()}
            P = cell["params"]
            if t in COMB_CELLS:
                ins = [conns[k] for k in ("A", "B", "S") if k in conns]
                self._check_cell_widths(t, P, conns)
                self._add_item("cell", (t, P, conns), [c for s in ins for c in s], conns["Y"])
            elif t in ("$dff", "$adff"):
                w = _pint(P["\\WIDTH"])
                if self.spec_width(conns["D"]) != w or self.spec_width(conns["Q"]) != w:
                    raise Unreadable("%s width mismatch" % t)
                self.ffs.append((t, P, conns))
                self._mark_written(conns["Q"], "ff")
            elif t == "$meminit_v2":
                memid = prefix + P["\\MEMID"].strip('"').replace("\\\\", "\\")
                m = self.mem[memid]
                words = _pint(P["\\WORDS"])
                width = _pint(P["\\WIDTH"])
                v, x, _w = self._read_const(conns["DATA"])
                base = 0
                if conns.get("ADDR"):
                    base = self._read_const(conns["ADDR"])[0]
                for k in range(words):
                    if base + k < m["size"]:
                        m["rows"][base + k] = [(v >> (k * width)) & ((1 << width) - 1), (x >> (k * width)) & ((1 << width) - 1)]
            elif t == "$memwr_v2":
                memid = prefix + P["\\MEMID"].strip('"').replace("\\\\", "\\")
                self.memwr.append((memid, P, conns))
            elif t == "$memrd_v2":
                memid = prefix + P["\\MEMID"].strip('"').replace("\\\\", "\\")
                if memid not in self.mem:
                    raise Unreadable("memory %s does not exist" % memid)
                if _pint(P["\\CLK_ENABLE"]):
                    self.memrd_sync.append((memid, P, conns))
                    self._mark_written(conns["DATA"], "memrd")
                else:
                    self._add_item("memrd", (memid, P, conns), conns["ADDR"], conns["DATA"])
            elif t in ("$print", "$check"):
                pass
            elif t.startswith("\\"):
                sub = self.mods.get(t)
                if sub is None:
                    raise Unreadable("cell of unknown module %s" % t)
                subprefix = prefix + cell["name"] + "/"
                self._instantiate(t, subprefix)
                declared = {n for n, w in sub.wires.items() if w["kind"]}
                if set(conns) != declared:
                    raise Unreadable("cell %s connects ports %s but module declares %s" % (
                        cell["name"], sorted(conns), sorted(declared)))
                for pname, spec in conns.items():
                    w = sub.wires[pname]
                    if self.spec_width(spec) != w["width"]:
                        raise Unreadable("port %s of %s: width %d connected to %d bits" % (pname, t, w["width"],
                                                                                          self.spec_width(spec)))
                    inner = [("w", subprefix + pname, 0, w["width"])]
                    if w["kind"] == "input":
                        self._add_item("connect", (inner, spec), spec, inner)
                    elif w["kind"] == "output":
                        self._add_item("connect", (spec, inner), inner, spec)
                    else:
                        raise Unreadable("inout ports are not part of the evaluated subset")
            else:
                raise Unreadable("cell type %s is not part of the evaluated subset" % t)

    def _read_const(self, spec):
        v = x = 0
        off = 0
        for ch in spec:
            if ch[0] != "c":
                raise Unreadable("expected a constant")
            v |= ch[1] << off
            x |= ch[2] << off
            off += ch[3]
        return v, x, off

    def _check_cell_widths(self, t, P, conns):
        for port, par in (("A", "\\A_WIDTH"), ("B", "\\B_WIDTH"), ("Y", "\\Y_WIDTH")):
            if par in P and port in conns and self.spec_width(conns[port]) != _pint(P[par]):
                raise Unreadable("cell %s: port %s has %d bits, parameter says %d" % (t, port, self.spec_width(conns[port]),
                                                                                    _pint(P[par])))
        if t == "$mux":
            w = _pint(P["\\WIDTH"])
            if any(self.spec_width(conns[k]) != w for k in ("A", "B", "Y")) or self.spec_width(conns["S"]) != 1:
                raise Unreadable("$mux width mismatch")

    def _flat_stmts(self, prefix, stmts, mod):
        out = []
        for st in stmts:
            if st[0] == "assign":
                l, r = self._flat(prefix, st[1], mod), self._flat(prefix, st[2], mod)
                if self.spec_width(l) != self.spec_width(r):
                    raise Unreadable("process assignment width mismatch in %s" % mod.name)
                out.append(("assign", l, r))
            else:
                sel = self._flat(prefix, st[1], mod)
                cases = []
                for pats, body in st[2]:
                    for p in pats:
                        if len(p) != self.spec_width(sel):
                            raise Unreadable("case pattern width mismatch")
                    cases.append((pats, self._flat_stmts(prefix, body, mod)))
                out.append(("switch", sel, cases))
        return out

    def _proc_rw(self, stmts, reads, writes):
        for st in stmts:
            if st[0] == "assign":
                writes += st[1]
                reads += st[2]
            else:
                reads += st[1]
                for pats, body in st[2]:
                    self._proc_rw(body, reads, writes)

    def _bits(self, spec):
        out = set()
        for ch in spec:
            if ch[0] == "w":
                for k in range(ch[3]):
                    out.add((ch[1], ch[2] + k))
        return out

    def _add_item(self, kind, payload, reads, writes):
        wb = self._bits(writes)
        self._mark_written(writes, kind)
        self.items.append((kind, payload, self._bits(reads), wb))

    def _mark_written(self, spec, who):
        if not hasattr(self, "_drivers"):
            self._drivers = {}
        for key in self._bits(spec):       # one item counts once per bit, however often it assigns it
            self._drivers.setdefault(key, []).append(who)

    def _check_drivers(self):
        for key, who in self._drivers.items():
            if len(who) > 1:
                raise Unreadable("wire bit %s[%d] has %d drivers (%s)" % (key[0], key[1], len(who), ",".join(who)))

    def _order(self):
        producer = {}
        for idx, (kind, payload, reads, writes) in enumerate(self.items):
            for b in writes:
                producer[b] = idx
        n = len(self.items)
        deps = [set() for _ in range(n)]
        users = [set() for _ in range(n)]
        for idx, (kind, payload, reads, writes) in enumerate(self.items):
            for b in reads:
                p = producer.get(b)
                if p is not None and p != idx:
                    deps[idx].add(p)
                    users[p].add(idx)
                elif p == idx:
                    self.cyclic = True
        indeg = [len(d) for d in deps]
        ready = [i for i in range(n) if indeg[i] == 0]
        order = []
        while ready:
            i = ready.pop()
            order.append(i)
            for u in users[i]:
                indeg[u] -= 1
                if indeg[u] == 0:
                    ready.append(u)
        self.acyclic = (len(order) == n)
        if not self.acyclic:
            order += [i for i in range(n) if i not in set(order)]
        self.order = order

    # ------------------------------------------------------------------------------------------------ values
    def read(self, spec, val=None, xm=None):
        val = self.val if val is None else val
        xm = self.xm if xm is None else xm
        v = x = 0
        off = 0
        for ch in spec:
            w = ch[3]
            if ch[0] == "c":
                v |= ch[1] << off
                x |= ch[2] << off
            else:
                m = (1 << w) - 1
                v |= ((val[ch[1]] >> ch[2]) & m) << off
                x |= ((xm[ch[1]] >> ch[2]) & m) << off
            off += w
        return v & ~x, x, off

    def write(self, spec, v, x):
        changed = False
        off = 0
        for ch in spec:
            w = ch[3]
            if ch[0] == "w":
                m = ((1 << w) - 1) << ch[2]
                nv = (self.val[ch[1]] & ~m) | (((v >> off) << ch[2]) & m)
                nx = (self.xm[ch[1]] & ~m) | (((x >> off) << ch[2]) & m)
                nv &= ~nx
                if nv != self.val[ch[1]] or nx != self.xm[ch[1]]:
                    self.val[ch[1]] = nv
                    self.xm[ch[1]] = nx
                    changed = True
            off += w
        return changed

    @staticmethod
    def _sx(v, w, signed):
        if signed and w and (v >> (w - 1)) & 1:
            return v - (1 << w)
        return v

    def eval_cell(self, t, P, conns):
        yw = self.spec_width(conns["Y"])
        ym = (1 << yw) - 1
        if t == "$mux":
            s, sx, _ = self.read(conns["S"])
            a, ax, _ = self.read(conns["A"])
            b, bx, _ = self.read(conns["B"])
            if sx:
                same = ~(a ^ b) & ~ax & ~bx & ym
                return a & same, ym & ~same
            return (b, bx) if s else (a, ax)
        a, ax, aw = self.read(conns["A"])
        a_s = bool(_pint(P.get("\\A_SIGNED", "0")))
        if "B" in conns:
            b, bx, bw = self.read(conns["B"])
            b_s = bool(_pint(P.get("\\B_SIGNED", "0")))
        else:
            b = bx = bw = 0
            b_s = False
        if t in ("$and", "$or", "$xor", "$not"):
            # operands extended to Y_WIDTH by their own signedness, evaluated per bit
            def ext(v, x, w, s):
                if w == 0:
                    return 0, 0
                if w < yw:
                    top_v, top_x = (v >> (w - 1)) & 1, (x >> (w - 1)) & 1
                    hi = ((1 << yw) - 1) & ~((1 << w) - 1)
                    if s:
                        if top_x:
                            x |= hi
                        elif top_v:
                            v |= hi
                return v & ym, x & ym
            a, ax = ext(a, ax, aw, a_s)
            if t == "$not":
                return (~a) & ym & ~ax, ax
            b, bx = ext(b, bx, bw, b_s)
            if t == "$and":
                zero = (~a & ~ax) | (~b & ~bx)
                x = (ax | bx) & ~zero & ym
                return a & b & ~x, x
            if t == "$or":
                one = (a & ~ax) | (b & ~bx)
                x = (ax | bx) & ~one & ym
                return (a | b) & ~x, x
            x = (ax | bx) & ym
            return (a ^ b) & ~x, x
        if ax or bx:
            return 0, ym
        ai = self._sx(a, aw, a_s)
        bi = self._sx(b, bw, b_s)
        if t == "$neg":
            return (-ai) & ym, 0
        if t == "$reduce_and":
            return int(a == (1 << aw) - 1), 0
        if t in ("$reduce_or", "$reduce_bool"):
            return int(a != 0), 0
        if t == "$reduce_xor":
            return bin(a).count("1") & 1, 0
        if t == "$add":
            return (ai + bi) & ym, 0
        if t == "$sub":
            return (ai - bi) & ym, 0
        if t == "$mul":
            return (ai * bi) & ym, 0
        if t in ("$divfloor", "$modfloor"):
            if bi == 0:
                return 0, ym
            return ((ai // bi) if t == "$divfloor" else (ai % bi)) & ym, 0
        if t in ("$eq", "$ne", "$lt", "$le", "$gt", "$ge"):
            if a_s != b_s:
                return 0, ym
            r = {"$eq": ai == bi, "$ne": ai != bi, "$lt": ai < bi, "$le": ai <= bi, "$gt": ai > bi, "$ge": ai >= bi}[t]
            return int(r), 0
        if t == "$shl":
            if b_s:
                return 0, ym
            return (ai << b) & ym, 0
        if t == "$shr":
            if b_s or a_s:
                return 0, ym
            return (a >> b) & ym, 0
        if t == "$sshr":
            if b_s:
                return 0, ym
            return ((ai if a_s else a) >> b) & ym, 0
        if t == "$shift":
            if b_s:
                return 0, ym
            # A is extended to max(A_WIDTH, Y_WIDTH) by its own signedness and shifted right by B.  What is shifted in from
            # beyond that extension is zero for unsigned A; for signed A it is left undefined here (see Appendix A).
            ew = max(aw, yw)
            if not a_s:
                return (ai >> b) & ym, 0
            ext = ai & ((1 << ew) - 1)          # two's complement pattern of A at the extended width
            if self.shift_signed_fill == "zero":
                return (ext >> b) & ym, 0
            x = 0
            for k in range(yw):                 # result bit k comes from source bit b + k; beyond the extension: undefined
                if b + k >= ew:
                    x |= 1 << k
            return (ext >> b) & ym & ~x, x
        raise Unreadable("cell type %s" % t)

    def run_proc(self, stmts, acc):
        """acc: dict wire -> [val, xm, assigned mask]"""
        for st in stmts:
            if st[0] == "assign":
                v, x, w = self.read_acc(st[2], acc)
                self.write_acc(st[1], v, x, acc)
            else:
                sel, sx, sw = self.read_acc(st[1], acc)
                unknown = False
                for pats, body in st[2]:
                    if not pats:
                        self.run_proc(body, acc)
                        break
                    hit = False
                    for p in pats:
                        ok = True
                        for k, chh in enumerate(reversed(p)):
                            if chh == "-":
                                continue
                            if (sx >> k) & 1:
                                unknown = True
                                ok = False
                                break
                            if int(chh) != ((sel >> k) & 1):
                                ok = False
                                break
                        if ok:
                            hit = True
                            break
                    if unknown:
                        break
                    if hit:
                        self.run_proc(body, acc)
                        break
                if unknown:
                    # an undefined selector: everything assigned below this switch becomes undefined
                    ws = []
                    self._proc_rw([st], [], ws)
                    for ch in ws:
                        if ch[0] == "w":
                            self.write_acc([ch], 0, (1 << ch[3]) - 1, acc)

    def read_acc(self, spec, acc):
        # a process reads committed values (its own earlier assignments are to other wires: processes emitted by the backend
        # never read what they assign)
        return self.read(spec)

    def write_acc(self, spec, v, x, acc):
        off = 0
        for ch in spec:
            w = ch[3]
            if ch[0] == "w":
                cur = acc.setdefault(ch[1], [0, 0, 0])
                m = ((1 << w) - 1) << ch[2]
                cur[0] = (cur[0] & ~m) | (((v >> off) << ch[2]) & m)
                cur[1] = (cur[1] & ~m) | (((x >> off) << ch[2]) & m)
                cur[2] |= m
            off += w

    def eval_item(self, item):
        kind, payload, reads, writes = item
        if kind == "connect":
            l, r = payload
            v, x, w = self.read(r)
            return self.write(l, v, x)
        if kind == "cell":
            t, P, conns = payload
            v, x = self.eval_cell(t, P, conns)
            return self.write(conns["Y"], v, x)
        if kind == "proc":
            acc = {}
            self.run_proc(payload, acc)
            changed = False
            for name, (v, x, m) in acc.items():
                nv = (self.val[name] & ~m) | (v & m)
                nx = (self.xm[name] & ~m) | (x & m)
                nv &= ~nx
                if nv != self.val[name] or nx != self.xm[name]:
                    self.val[name], self.xm[name] = nv, nx
                    changed = True
            return changed
        if kind == "memrd":
            memid, P, conns = payload
            a, ax, aw = self.read(conns["ADDR"])
            m = self.mem[memid]
            full = (1 << m["width"]) - 1
            if ax or a >= m["size"]:
                return self.write(conns["DATA"], 0, full)
            return self.write(conns["DATA"], m["rows"][a][0], m["rows"][a][1])
        raise AssertionError(kind)

    def settle(self):
        if self.acyclic:
            for i in self.order:
                self.eval_item(self.items[i])
            return
        for _ in range(64):
            changed = False
            for i in self.order:
                if self.eval_item(self.items[i]):
                    changed = True
            if not changed:
                return
        raise CombLoop("combinational logic did not settle in 64 sweeps")

    def snapshot(self):
        return dict(self.val), dict(self.xm), {k: [list(r) for r in m["rows"]] for k, m in self.mem.items()}

    # ------------------------------------------------------------------------------------------------ stepping
    def set_inputs(self, changes):
        """changes: {port name: raw value}.  One harness step: all changes take effect in the same instant."""
        before = self.snapshot()
        for name, v in changes.items():
            wname, kind, width, _s = self.top_ports[name]
            if kind != "input":
                raise Unreadable("port %s is not an input in the emitted text" % name)
            self.val[wname] = v & ((1 << width) - 1)
            self.xm[wname] = 0
        self.settle()
        for _round in range(64):
            bval, bxm, bmem = before
            updates = []
            mem_updates = []
            trig = False

            def edge(clkspec, pol):
                c0, x0, _ = self.read(clkspec, bval, bxm)
                c1, x1, _ = self.read(clkspec)
                if x0 or x1:
                    return None if (c0 != c1 or x0 != x1) else False
                return c0 != c1 and c1 == pol

            for (t, P, conns) in self.ffs:
                w = _pint(P["\\WIDTH"])
                full = (1 << w) - 1
                pol = _pint(P["\\CLK_POLARITY"])
                if t == "$adff":
                    ar, arx, _ = self.read(conns["ARST"])
                    apol = _pint(P["\\ARST_POLARITY"])
                    if arx:
                        updates.append((conns["Q"], 0, full))
                        continue
                    if ar == apol:
                        c = parse_const(P["\\ARST_VALUE"])
                        q, qx, _ = self.read(conns["Q"])
                        if (q, qx) != (c[0] & full, c[1] & full):
                            updates.append((conns["Q"], c[0] & full, c[1] & full))
                        continue
                e = edge(conns["CLK"], pol)
                if e is None:
                    updates.append((conns["Q"], 0, full))
                elif e:
                    d, dx, _ = self.read(conns["D"], bval, bxm)
                    updates.append((conns["Q"], d, dx))
                    trig = True
            writes_now = []     # (memid, addr, bitmask, data, xbits, portid, clkspec)
            for (memid, P, conns) in self.memwr:
                e = edge(conns["CLK"], _pint(P["\\CLK_POLARITY"]))
                m = self.mem[memid]
                full = (1 << m["width"]) - 1
                if e is None:
                    for k in range(m["size"]):
                        mem_updates.append((memid, k, 0, full, full))
                    continue
                if not e:
                    continue
                trig = True
                a, ax, _ = self.read(conns["ADDR"], bval, bxm)
                d, dx, _ = self.read(conns["DATA"], bval, bxm)
                en, enx, _ = self.read(conns["EN"], bval, bxm)
                if ax:
                    if en | enx:
                        for k in range(m["size"]):
                            mem_updates.append((memid, k, 0, full, full))
                    continue
                if a < m["size"]:
                    mem_updates.append((memid, a, d, en | enx, dx | enx))
                    writes_now.append((memid, a, en | enx, d, dx | enx, _pint(P["\\PORTID"]), conns["CLK"]))
            for (memid, P, conns) in self.memrd_sync:
                e = edge(conns["CLK"], _pint(P["\\CLK_POLARITY"]))
                m = self.mem[memid]
                full = (1 << m["width"]) - 1
                if e is None:
                    updates.append((conns["DATA"], 0, full))
                    continue
                if not e:
                    continue
                trig = True
                en, enx, _ = self.read(conns["EN"], bval, bxm)
                if enx:
                    updates.append((conns["DATA"], 0, full))
                    continue
                if not en:
                    continue
                a, ax, _ = self.read(conns["ADDR"], bval, bxm)
                if ax or a >= m["size"]:
                    updates.append((conns["DATA"], 0, full))
                    continue
                v, x = bmem[memid][a]
                tmask = parse_const(P["\\TRANSPARENCY_MASK"])[0]
                patched = 0
                for (wm, wa, wbits, wd, wx, pid, wclk) in writes_now:
                    if wm != memid or wa != a or not wbits:
                        continue
                    if (tmask >> pid) & 1:
                        v = (v & ~wbits) | (wd & wbits)
                        x = (x & ~wbits) | (wx & wbits) | (patched & wbits)     # two transparent ports on one bit: undefined
                        patched |= wbits
                    elif wclk != conns["CLK"]:
                        x |= wbits          # same-instant write from another clock: undefined
                updates.append((conns["DATA"], v & ~x, x))
            if not updates and not mem_updates:
                break
            before = self.snapshot()
            # two ports writing the same bit of the same row in one instant (PRIORITY_MASK = 0): undefined
            touched = {}
            for (memid, a, d, bits, xbits) in mem_updates:
                row = self.mem[memid]["rows"][a]
                prev = touched.get((memid, a), 0)
                row[0] = (row[0] & ~bits) | (d & bits)
                row[1] = (row[1] & ~bits) | (xbits & bits) | (prev & bits)
                row[0] &= ~row[1]
                touched[(memid, a)] = prev | bits
            for spec, v, x in updates:
                self.write(spec, v, x)
            self.settle()
        else:
            raise CombLoop("sequential logic did not quiesce in 64 rounds (oscillating derived clocks?)")

    def get(self, name):
        wname, kind, width, signed = self.top_ports[name]
        return self.val[wname], self.xm[wname], width
